"""
C16 -- parsing time stays bounded.

Decided statically (never measures time, never runs a regex):
  RX-AMB    no regex used by the parser has an exploitable exponential
            ambiguity (EDA) or an exploitable polynomial ambiguity of degree
            >= 3 in its position automaton.
  GROW      no replace-all of a match's text inside a loop over the matches
            of the same string (compounding substitution).
  FIXPOINT  every ``while a != b`` substitute-until-stable loop snapshots and
            re-derives its subject each iteration, the snapshot does not alias
            an object mutated in place, and constant replacements are fixed
            points of their own regex.
  PROGRESS  every ``while True`` scanning loop of the parser re-assigns its
            cursor on every path to the back edge and has a reachable break.
"""

import ast
import re

from .. import AnalysisError, rx, flow
from ..fold import RegexVal, is_unknown
from ..srcmodel import walk_local, call_name, norm, dotted, parent
from . import common

META = {
    'explanation': (
        "Static ambiguity analysis of every regular expression the parser "
        "uses (Glushkov position automaton over a representative alphabet; "
        "pair-product SCC for exponential ambiguity, triple product for the "
        "degree of polynomial ambiguity; a pump only counts when the "
        "continuation after the loop fails for every number of iterations), "
        "plus structural rules on the substitution and scanning loops. "
        "Decides the growth class of matching time, not its constant."
        ' Also: reduce_whitespace repeats its substitutions until stable whenever they feed each other (decided on the constant patterns), fix-point loops compare one pass with the next (tri-state), scan cursors advance on every path (path-sensitive).'
        ' Round 8: every return of plss_preprocess went through reduce_whitespace.'
        ' Round 9: pass_back_halves makes progress (no oscillating fix point).'
        ' Round 10: every description staged in _parse_meaningful is a cleanup_desc() result (keeps trailing separator runs, on which the list patterns are exponential, away from the Tract parser).'
        ' Round 11: every stage of the whitespace / Twp/Rge normalisation reads the result of the stage before it (no dead store).'
        ' Round 12: an ambiguity whose loop component and signature equal those of a recorded finding is attributed to it (new patterns that embed the shared sub-pattern).'),
    'assumptions': [
        "sre is a backtracking matcher whose work is bounded by the number of "
        "distinct paths of the position automaton on the input",
        "assertions other than a tail look-ahead/$ are treated as epsilon "
        "(over-approximates ambiguity only where the exploitability test "
        "then has to confirm it)",
        "degree <= 2 polynomial ambiguity (at most cubic work) is accepted as "
        "'modest growth' at a few hundred characters",
    ],
}

IDA_THRESHOLD = 3


def check(ctx):
    bound = 6 if ctx.tier == 'quick' else 24
    inv = common.regex_inventory(ctx)
    usage = common.regex_usage(ctx)
    ctx.floor('regex patterns folded', sum(1 for r in inv if r['rv'] is not None), 35)
    sizes = {}
    # loops of the patterns that have a recorded EDA finding (shared sub-patterns are attributed to them)
    from ..core import load_known
    known_names = {k['key'].split('|')[1] for k in load_known().get('known', []) if k.get('property') == 'C16' and '|EDA|' in k['key']}
    shared_loops = {}
    for r in inv:
        if r['rv'] is not None and r['name'] in known_names:
            rv0 = r['rv']
            res0 = ctx.cache(('amb', rv0.pattern, rv0.flags, bound), lambda rv0=rv0: rx.analyse_ambiguity(rv0.pattern, rv0.flags, bound))
            for e0 in res0['eda']:
                if e0['verdict'] == 'exploitable':
                    for part in e0['loop'].split(' & '):
                        if len(part.strip()) > 12:       # a real sub-pattern, not a bare `\s*`
                            shared_loops.setdefault((part.strip(), e0['signature']), r['name'])
    n_used = 0
    for r in inv:
        if r['rv'] is None:
            ctx.undecided('RX-AMB', r['name'], f"inline regex in {r['where']} does not fold ({r.get('why')}): not analysed")
            continue
        rv = r['rv']
        name = r['name']
        used = r['kind'] != 'module' or bool(usage.get(name))
        res = ctx.cache(('amb', rv.pattern, rv.flags, bound),
                        lambda: rx.analyse_ambiguity(rv.pattern, rv.flags, bound))
        sizes[name] = res['positions']
        if not used:
            ctx.ok('RX-AMB', name, 'only embedded in other patterns; analysed there')
            continue
        n_used += 1
        bad = False
        if res.get('approx') and (any(e['verdict'] == 'exploitable' for e in res['eda'])
                                  or (res['ida'] and res['ida']['degree'] >= IDA_THRESHOLD and res['ida']['verdict'] == 'exploitable')):
            # atomic groups / possessive repeats with a composite body cut backtracking in ways the
            # position automaton does not model: an ambiguity found there may not be reachable
            ctx.undecided('RX-AMB', name, f"ambiguity found, but the pattern commits in {res['approx'][:2]}: not decided")
            continue
        for e in res['eda']:
            if e['verdict'] == 'exploitable':
                # the same ambiguous sub-pattern (identical loop, identical divergence signature) in a pattern that
                # has a recorded finding: a new pattern that merely embeds that sub-pattern adds no new defect
                shared = next((shared_loops[(part.strip(), e['signature'])] for part in e['loop'].split(' & ')
                               if (part.strip(), e['signature']) in shared_loops), None)
                if shared and shared != name and name not in known_names:
                    ctx.ok('RX-AMB', name, f"embeds the ambiguous sub-pattern recorded for {shared} (same loop, same divergence "
                                           f"signature {e['signature']}); see that finding")
                    continue
                bad = True
                ctx.violation(
                    'RX-AMB', name,
                    f"exponential ambiguity in loop {e['loop'][:160]} ({e['via']}); "
                    f"the continuation fails after every number of iterations",
                    key=f"RX-AMB|{name}|EDA|{e['signature']}",
                    where=r['where'], witness=e['witness'])
        if res.get('ws_pump'):
            bad = True
            w = res['ws_pump']
            ctx.violation(
                'RX-AMB', f"{name}: no exponential ambiguity on blanks alone",
                f"a run of whitespace by itself ({w['pump']!r} repeated) can be split in exponentially many ways in loop "
                f"{w['loop'][:120]}, and the continuation fails after each: ~25 blanks / blank lines after a number stall the parse",
                key=f"RX-AMB|{name}|EDA|whitespace-pump", where=r['where'], witness=w['witness'])
        ida = res['ida']
        if ida and ida['degree'] >= IDA_THRESHOLD and ida['verdict'] == 'exploitable':
            bad = True
            ctx.violation(
                'RX-AMB', name,
                f"polynomial ambiguity of degree {ida['degree']}: "
                f"{ida['degree'] + 1} overlapping loops {ida['chain']}",
                key=f"RX-AMB|{name}|IDA{ida['degree']}",
                where=r['where'], witness=ida['witness'])
        if not bad:
            d = res['ida_degree']
            bn = [e['verdict'] for e in res['eda']]
            ctx.ok('RX-AMB', name,
                   f"{res['positions']} positions; EDA candidates {bn or 'none'}; IDA degree {d}")
    ctx.notes['automaton_positions'] = sizes
    ctx.notes['patterns_analysed'] = len(inv)
    ctx.notes['patterns_used_by_parser'] = n_used

    ctx.attempt(_grow)
    ctx.attempt(_whitespace_normal_form)
    ctx.attempt(_whitespace_before_everything)
    ctx.attempt(_staged_desc_is_cleaned)
    # every stage of the whitespace / Twp/Rge normalisation works on the result of the stage before it
    # (a computed text that is never read means a stage is skipped: runs of blanks survive)
    from .forward import dead_stores
    ctx.attempt(dead_stores, [f for f in ctx.repo.funcs.values() if f.module.name.endswith(('plssdesc.plss_preprocess', 'tract.tract_preprocess'))])
    from .c02 import pass_back_makes_progress       # a pass that undoes itself never reaches the fixed point
    ctx.attempt(pass_back_makes_progress)
    ctx.attempt(_fixpoint)
    ctx.attempt(_progress)
    ctx.attempt(_bounded_expansion)
    ctx.attempt(_cursor_from_match_end)
    from .c15 import _globals_inventory       # a scrubber table that grows with every call makes every later parse slower
    ctx.attempt(_globals_inventory)
    from .layouts import check_dispatch       # a costly context check must not run for layouts that never need it
    ctx.attempt(check_dispatch)


# ----------------------------------------------------------------------
def _match_loop_vars(fi):
    """For loops over ``X.finditer(s)`` (directly or via a name bound to
    it): yields (for_node, subject_name)."""
    bound = {}
    for n in walk_local(fi.node):
        if isinstance(n, ast.Assign) and len(n.targets) == 1 \
                and isinstance(n.targets[0], ast.Name) \
                and isinstance(n.value, ast.Call) \
                and isinstance(n.value.func, ast.Attribute) \
                and n.value.func.attr in ('finditer', 'findall') and n.value.args:
            a0 = n.value.args[-1] if call_name(n.value).startswith('re.') else n.value.args[0]
            if isinstance(a0, ast.Name):
                bound[n.targets[0].id] = a0.id
    for n in walk_local(fi.node):
        if isinstance(n, ast.For):
            it = n.iter
            subj = None
            if isinstance(it, ast.Name) and it.id in bound:
                subj = bound[it.id]
            elif isinstance(it, ast.Call) and isinstance(it.func, ast.Attribute) \
                    and it.func.attr in ('finditer', 'findall') and it.args:
                a0 = it.args[-1] if (call_name(it) or '').startswith('re.') else it.args[0]
                if isinstance(a0, ast.Name):
                    subj = a0.id
            if subj:
                yield n, subj


def _grow(ctx):
    n_loops = 0
    for fi in ctx.repo.funcs.values():
        if fi.module.name.startswith('pytrs.interface_tools'):
            continue
        for loop, subj in _match_loop_vars(fi):
            n_loops += 1
            bad = None
            for n in ast.walk(loop):
                if isinstance(n, ast.Assign) and len(n.targets) == 1 \
                        and isinstance(n.targets[0], ast.Name) \
                        and n.targets[0].id == subj \
                        and isinstance(n.value, ast.Call) \
                        and isinstance(n.value.func, ast.Attribute) \
                        and n.value.func.attr == 'replace' \
                        and isinstance(n.value.func.value, ast.Name) \
                        and n.value.func.value.id == subj \
                        and len(n.value.args) >= 2:
                    # replacing by *text* while iterating matches of the
                    # original string: with or without a count, repeated
                    # identical matches re-hit earlier occurrences
                    bad = n
            construct = f"{fi.qualname}: for ... in finditer({subj})"
            if bad is not None:
                ctx.violation(
                    'GROW', construct,
                    f"`{norm(bad)}` replaces by text (not by span) once per match "
                    f"of the original string; repeated identical matches re-hit the "
                    f"same occurrences and compound the replacement",
                    key=f"GROW|{fi.qualname}|{subj}",
                    where=common.loc(fi, bad))
            else:
                ctx.ok('GROW', construct, 'loop body does not replace-all on its subject')
    ctx.notes['match_loops'] = n_loops
    # regex substitutions with a callback / template are single-pass by
    # construction (re.sub): recorded as instances
    n_sub = 0
    for fi in ctx.repo.funcs.values():
        for c in common.method_calls(fi.node, 'sub'):
            n_sub += 1
    ctx.notes['re_sub_sites'] = n_sub


def _mutates_param(ctx, fi, idx, seen=None):
    """Does function fi mutate (in place) the object passed as its idx-th
    positional parameter?  (append/extend/insert/pop/remove/reverse/sort/
    clear, subscript store, or passing it on to a function that does.)"""
    seen = seen or set()
    if (fi.fullname, idx) in seen:
        return False
    seen.add((fi.fullname, idx))
    params = fi.params()
    if idx >= len(params):
        return False
    p = params[idx]
    MUT = {'append', 'extend', 'insert', 'pop', 'remove', 'reverse', 'sort', 'clear'}
    # follow simple aliases p2 = p
    names = {p}
    for n in walk_local(fi.node):
        if isinstance(n, ast.Assign) and isinstance(n.value, ast.Name) and n.value.id in names:
            for t in n.targets:
                if isinstance(t, ast.Name):
                    names.add(t.id)
    # a name that is re-bound to a NEW object (a slice, list(...), a copy, a comprehension) at the top
    # level of the function no longer refers to the argument from that line on
    fresh_from = {}
    for st in fi.node.body:
        if isinstance(st, ast.Assign) and len(st.targets) == 1 and isinstance(st.targets[0], ast.Name) \
                and st.targets[0].id in names:
            v = st.value
            new_obj = (isinstance(v, ast.Subscript) and isinstance(v.slice, ast.Slice)) \
                or isinstance(v, (ast.ListComp, ast.List)) \
                or (isinstance(v, ast.Call) and (dotted(v.func) in ('list', 'sorted', 'copy.copy', 'copy.deepcopy')
                                                 or (isinstance(v.func, ast.Attribute) and v.func.attr == 'copy')))
            if new_obj:
                fresh_from.setdefault(st.targets[0].id, st.lineno)
    def _still_arg(name, node):
        return not (name in fresh_from and node.lineno > fresh_from[name])
    for n in walk_local(fi.node):
        if isinstance(n, ast.Call) and isinstance(n.func, ast.Attribute) \
                and isinstance(n.func.value, ast.Name) and n.func.value.id in names \
                and n.func.attr in MUT and _still_arg(n.func.value.id, n):
            return True
        if isinstance(n, ast.Subscript) and isinstance(n.ctx, ast.Store) \
                and isinstance(n.value, ast.Name) and n.value.id in names and _still_arg(n.value.id, n):
            return True
        if isinstance(n, ast.Call) and isinstance(n.func, ast.Name):
            tgt = ctx.repo.find_funcs(f"{fi.module.name}:{n.func.id}")
            for j, a in enumerate(n.args):
                if isinstance(a, ast.Name) and a.id in names and _still_arg(a.id, n):
                    for t in tgt:
                        if _mutates_param(ctx, t, j, seen):
                            return True
    return False


def _fixpoint(ctx):
    ctx.attempt(fixpoint_loops, None, 6)
    ctx.attempt(_fixpoint_tokens)


def fixpoint_loops(ctx, only_module, floor):
    loops = []
    for fi in ctx.repo.funcs.values():
        if fi.module.name.startswith('pytrs.interface_tools'):
            continue
        if only_module and not fi.module.name.endswith(only_module):
            continue
        for n in walk_local(fi.node):
            if isinstance(n, ast.While) and isinstance(n.test, ast.Compare) \
                    and len(n.test.ops) == 1 and isinstance(n.test.ops[0], ast.NotEq) \
                    and isinstance(n.test.left, ast.Name) \
                    and isinstance(n.test.comparators[0], ast.Name):
                loops.append((fi, n))
    ctx.notes['fixpoint_loops'] = len(loops)
    for fi, loop in loops:
        a, b = loop.test.left.id, loop.test.comparators[0].id
        construct = f"{fi.qualname}: while {a} != {b}"
        # which of a/b is the snapshot: the one assigned from the other
        snap = None
        pairs = []          # (target name, value expr, statement, simultaneous?)
        for st in loop.body:
            if isinstance(st, ast.Assign) and len(st.targets) == 1:
                tg = st.targets[0]
                if isinstance(tg, ast.Name):
                    pairs.append((tg.id, st.value, st, False))
                elif isinstance(tg, ast.Tuple) and isinstance(st.value, ast.Tuple) \
                        and len(tg.elts) == len(st.value.elts):
                    for t_, v_ in zip(tg.elts, st.value.elts):
                        if isinstance(t_, ast.Name):
                            pairs.append((t_.id, v_, st, True))
        for t, v, st, simul in pairs:
            other = b if t == a else a if t == b else None
            if other is None:
                continue
            src = None
            alias = False
            if isinstance(v, ast.Name) and v.id == other:
                src, alias = other, True
            elif isinstance(v, ast.Call) and isinstance(v.func, ast.Attribute) \
                    and v.func.attr == 'copy' and isinstance(v.func.value, ast.Name) \
                    and v.func.value.id == other:
                src = other
            elif isinstance(v, ast.Call) and isinstance(v.func, ast.Name) \
                    and v.func.id in ('list', 'tuple', 'str') and v.args \
                    and isinstance(v.args[0], ast.Name) and v.args[0].id == other:
                src = other
            elif isinstance(v, ast.Subscript) and isinstance(v.value, ast.Name) \
                    and v.value.id == other and isinstance(v.slice, ast.Slice):
                src = other
            if src is not None and snap is None:
                snap = (t, src, alias, st)
        assigned_in_loop = {n.id for st in loop.body for n in ast.walk(st)
                            if isinstance(n, ast.Name) and isinstance(n.ctx, ast.Store)}
        never = [x for x in (a, b) if x not in assigned_in_loop]
        if never:
            ctx.violation('FIXPOINT', construct,
                          f"`{never[0]}` is compared by the loop condition but never assigned in the loop body: "
                          f"the loop does not compare one pass with the next",
                          key=f"FIXPOINT|{fi.qualname}|nosnapshot",
                          where=common.loc(fi, loop))
            continue
        if snap is None:
            ctx.undecided('FIXPOINT', construct, "snapshot idiom not recognised")
            continue
        snap_name, subject, alias, snap_stmt = snap
        # the subject must be re-derived from itself after the snapshot
        idx = loop.body.index(snap_stmt)
        rederived = False
        mut_alias = None
        simul = isinstance(snap_stmt.targets[0], ast.Tuple)
        if simul:
            for t_, v_ in zip(snap_stmt.targets[0].elts, snap_stmt.value.elts):
                if isinstance(t_, ast.Name) and t_.id == subject and any(
                        isinstance(x, ast.Name) and x.id == subject for x in ast.walk(v_)):
                    rederived = True
        for st in loop.body[idx + 1:]:
            for n in ast.walk(st):
                if isinstance(n, ast.Assign) and any(
                        isinstance(t, ast.Name) and t.id == subject for t in n.targets):
                    if any(isinstance(x, ast.Name) and x.id == subject
                           for x in ast.walk(n.value)):
                        rederived = True
                if alias and isinstance(n, ast.Call):
                    # in-place mutation of the aliased object?
                    if isinstance(n.func, ast.Attribute) and isinstance(n.func.value, ast.Name) \
                            and n.func.value.id == subject and n.func.attr in (
                                'append', 'extend', 'insert', 'pop', 'remove', 'reverse', 'sort', 'clear'):
                        mut_alias = n
                    if isinstance(n.func, ast.Name):
                        for t in ctx.repo.find_funcs(f"{fi.module.name}:{n.func.id}"):
                            for j, arg in enumerate(n.args):
                                if isinstance(arg, ast.Name) and arg.id == subject \
                                        and _mutates_param(ctx, t, j):
                                    mut_alias = n
        subj_assigned_after = simul or any(
            isinstance(n, ast.Name) and isinstance(n.ctx, ast.Store) and n.id == subject
            for st in loop.body[idx + 1:] for n in ast.walk(st))
        if not rederived and not subj_assigned_after:
            ctx.violation('FIXPOINT', construct,
                          f"`{subject}` is not assigned again after the snapshot: the condition compares "
                          f"the value with its own copy",
                          key=f"FIXPOINT|{fi.qualname}|norederive",
                          where=common.loc(fi, loop))
        elif not rederived:
            ctx.undecided('FIXPOINT', construct, f"`{subject}` is re-assigned but not visibly from itself")
        elif mut_alias is not None:
            ctx.violation('FIXPOINT', construct,
                          f"snapshot `{norm(snap_stmt)}` aliases the object that "
                          f"`{norm(mut_alias)}` mutates in place: the loop condition "
                          f"compares the object with itself and stops after one pass",
                          key=f"FIXPOINT|{fi.qualname}|alias",
                          where=common.loc(fi, snap_stmt))
        else:
            ctx.ok('FIXPOINT', construct,
                   f"snapshot `{norm(snap_stmt)}`; subject re-derived each pass")



def _whitespace_before_everything(ctx):
    """Every text that leaves plss_preprocess has been through
    reduce_whitespace: the list / aliquot patterns downstream are only
    bounded on whitespace-normal text (a run of 200 blanks after an aliquot is
    super-cubic for aliquot_intervener_remover_regex).  A `return` that hands
    the text back without it re-opens that door."""
    fi = ctx.repo.func('plss_preprocess:plss_preprocess')
    rets = [r for r in walk_local(fi.node) if isinstance(r, ast.Return) and r.value is not None]
    n = 0
    for r in rets:
        first = r.value.elts[0] if isinstance(r.value, ast.Tuple) and r.value.elts else r.value
        prov = flow.provenance(fi.node, first)
        calls = {c.split('.')[-1] for c in flow.prov_calls(prov)}
        n += 1
        ctx.check('reduce_whitespace' in calls, 'FIXPOINT', 'plss_preprocess returns whitespace-normal text on every path',
                  detail_bad=f"`{norm(r)[:60]}` (line {r.lineno}) returns text that never went through reduce_whitespace(): a "
                             f"description that takes this path keeps its runs of blanks / tabs, on which the downstream patterns "
                             f"backtrack polynomially or worse", key="FIXPOINT|plss_preprocess|unreduced-return",
                  where=common.loc(fi, r))
    ctx.floor('returns of plss_preprocess', n, 1)


def _staged_desc_is_cleaned(ctx):
    """The lot / section list patterns are exponential on a run of separators
    that is not followed by a number (known finding RX-AMB multilot_regex /
    multisec_regex: ', , , , x').  What keeps such a run from reaching the
    Tract parser is that the description block staged for a tract goes
    through cleanup_desc(), which strips trailing separators, on EVERY path -
    whatever `clean_up` says.  A staged description that can arrive without it
    re-opens the blow-up for `clean_up=False` ('Lot 1' + ', ' * 24)."""
    n = 0
    for fi in ctx.repo.funcs.values():
        if not fi.fullname.split(':')[-1].startswith('ChunkParser._parse_meaningful'):
            continue
        cfg, rd = flow.analyse(fi.node)
        for c in walk_local(fi.node):
            if not (isinstance(c, ast.Call) and (dotted(c.func) or '').split('.')[-1] == '_stage_new_tract' and c.args):
                continue
            arg = c.args[0]
            if not isinstance(arg, ast.Name):
                pv = flow.provenance(fi.node, arg)
                ok = any(x.split('.')[-1] == common.cleanup_name(ctx) for x in flow.prov_calls(pv))
                n += 1
                ctx.shape(ok, 'FIXPOINT', f"{fi.qualname}: the staged description went through cleanup_desc()",
                          why=f"`{norm(arg)[:40]}` is not a plain name; paths not followed")
                continue
            at = flow.stmt_node(cfg, c)
            ds = rd.reaching(at, arg.id)
            raw = []
            for d in ds:
                val = rd.defs[d]
                cleaned = isinstance(val, ast.Call) and (dotted(val.func) or '').split('.')[-1] == common.cleanup_name(ctx)
                if not cleaned:
                    raw.append(d)
            n += 1
            ctx.check(not raw, 'FIXPOINT', f"{fi.qualname}: the staged description went through cleanup_desc() on every path",
                      f"{len(ds)} reaching definition(s)",
                      f"`{norm(c)[:60]}` can receive `{arg.id}` as "
                      f"{'it was handed in' if any(d[0] == 'param' for d in raw) else 'assigned without cleanup_desc()'}: a block that "
                      f"ends in a run of separators ('Lot 1, , , , , , , ,') then reaches the Tract parser, where multilot_regex / "
                      f"multisec_regex try every way of splitting the run before failing (exponential; see the known RX-AMB findings)",
                      key=f"FIXPOINT|{fi.qualname}|staged-desc-uncleaned", where=common.loc(fi, c))
    ctx.floor('staging calls in _parse_meaningful', n, 1)


def _whitespace_normal_form(ctx):
    """reduce_whitespace leaves no run of blanks behind: its substitutions
    feed each other (a later one writes the character an earlier one
    collapses), so they have to be repeated until nothing changes.  The
    interplay is decided on the constant patterns / replacements: applying
    substitution i to the text substitution j>i writes (next to i's own
    output) still changes it."""
    fi = ctx.repo.func('plss_preprocess:reduce_whitespace')
    subs = common.sub_pairs(ctx, fi)
    construct = 'reduce_whitespace repeats its substitutions until nothing changes'
    if len(subs) < 2:
        ctx.undecided('FIXPOINT', construct, 'substitutions not recognised')
        return
    feeds = []
    for i, (pi, ri, ci) in enumerate(subs):
        Li = rx.Lang(pi, 0)
        for j, (pj, rj, cj) in enumerate(subs):
            if j <= i or not rj:
                continue
            for s_ in (rj + ri, ri + rj, rj + rj):
                if any(b > a and s_[a:b] != ri for a, b in Li.search_spans(s_)):
                    feeds.append((i, j, s_))
                    break
    looped = [n for n in walk_local(fi.node) if isinstance(n, (ast.While, ast.For))
              and all(any(c is x for x in ast.walk(n)) for _p, _r, c in subs)]
    if not feeds:
        ctx.ok('FIXPOINT', construct, 'the substitutions do not feed each other: one pass is stable')
        return
    # the stability test compares the texts, not a projection of them
    for lp in looped:
        tests = [lp.test] if isinstance(lp, ast.While) else []
        tests += [n.test for n in ast.walk(lp) if isinstance(n, ast.If) and any(isinstance(x, (ast.Break, ast.Return)) for x in ast.walk(n))]
        for t in tests:
            if isinstance(t, ast.Compare) and len(t.ops) == 1 and isinstance(t.ops[0], (ast.Eq, ast.NotEq)):
                sides = [t.left, t.comparators[0]]
                if all(isinstance(x, ast.Call) and dotted(x.func) in ('len', 'hash') for x in sides):
                    ctx.violation('FIXPOINT', construct,
                                  f"`{norm(t)}` compares a projection (length) of two passes: a pass that turns every tab into a blank "
                                  f"keeps the length, so the loop stops although blanks that now touch have not been collapsed yet",
                                  key="FIXPOINT|reduce_whitespace|projection", where=common.loc(fi, t))
                    return
    i, j, s_ = feeds[0]
    ctx.check(bool(looped), 'FIXPOINT', construct,
              f"{len(feeds)} feeding pair(s), all inside a loop",
              f"re.sub({subs[j][0]!r}, {subs[j][1]!r}) runs after re.sub({subs[i][0]!r}, {subs[i][1]!r}) and writes what that one "
              f"collapses ({s_!r} is left behind), and the substitutions are applied once only: mixed tab/blank runs survive as "
              f"runs of blanks, which the nested whitespace of the list regexes then multiplies per dot / dash leader",
              key="FIXPOINT|reduce_whitespace|single-pass", where=common.loc(fi, subs[j][2]))


def _bounded_expansion(ctx):
    """The numbers of an elided list are at most three digits wide on both
    ends: range() expansion (and the quadratic duplicate scan behind it) is
    bounded by 999 items per range, not by 10**k."""
    for rn, grps in (('multisec_regex', ('secnum', 'secnum_rightmost')),
                     ('multilot_regex', ('lotnum', 'lotnum_rightmost')),
                     ('multilot_with_aliquot_regex', ('lotnum', 'lotnum_rightmost'))):
        rv = common.regex_by_name(ctx, rn)
        gf = common.group_facts(ctx, rv)
        for g in grps:
            if g not in gf:
                continue
            ctx.check(gf[g].max_len <= 3 and gf[g].max_len > 0, 'GROW', f"{rn}: <{g}> is at most 3 digits",
                      f"max length {gf[g].max_len}",
                      f"<{g}> of {rn} accepts up to {gf[g].max_len} characters: 'Lots 1-99999' expands to ~10^{gf[g].max_len} "
                      f"items and then goes through the quadratic duplicate scan", key=f"GROW|{rn}|{g}|width", where=rv.module)


def _cursor_from_match_end(ctx):
    """A left-to-right scanning loop restarts its search at (or after) the END
    of something it matched: the new `pos=` value derives from a `.end()` of
    a match.  A value built from a start offset plus a length that can be 0
    (`i + len(stripped_text)`) may not move, and the loop never ends."""
    n = 0
    for spec in ('ChunkParser.gen_flags_chunk', 'TractParser.parse'):
        fi = ctx.repo.func(spec)
        for loop in walk_local(fi.node):
            if not isinstance(loop, ast.While):
                continue
            for c in ast.walk(loop):
                if isinstance(c, ast.Call) and isinstance(c.func, ast.Attribute) and c.func.attr == 'search':
                    for k in c.keywords:
                        if k.arg == 'pos' and isinstance(k.value, ast.Name) and enclosing_loop(c) is loop:
                            cur = k.value.id
                            for a_ in ast.walk(loop):
                                if isinstance(a_, ast.Assign) and any(isinstance(t, ast.Name) and t.id == cur for t in a_.targets):
                                    from .. import flow as _flow
                                    cfg_, rd_ = _flow.analyse(fi.node)
                                    seen_ = set()

                                    def derives(e, kind):
                                        # does the arithmetic value of e come from mo.<kind>() (not through len()/slices)?
                                        if isinstance(e, ast.Call):
                                            if isinstance(e.func, ast.Attribute) and e.func.attr == kind:
                                                return True
                                            if dotted(e.func) in ('min', 'max'):
                                                return any(derives(x, kind) for x in e.args)
                                            return False
                                        if isinstance(e, (ast.Tuple, ast.List)):
                                            return any(derives(x, kind) for x in e.elts)
                                        if isinstance(e, ast.BinOp) and isinstance(e.op, (ast.Add, ast.Sub)):
                                            return derives(e.left, kind) or derives(e.right, kind)
                                        if isinstance(e, ast.Name):
                                            node_ = _flow.stmt_node(cfg_, e)
                                            out_ = False
                                            for d_ in rd_.reaching(node_, e.id):
                                                if d_ in seen_ or d_[0] == 'param':
                                                    continue
                                                seen_.add(d_)
                                                v_ = rd_.defs[d_]
                                                if isinstance(v_, ast.AST) and derives(v_, kind):
                                                    out_ = True
                                            return out_
                                        return False
                                    def geq_end(e, depth=0):
                                        # is the value provably >= the end of the last match?  'yes' / 'no' / None
                                        if depth > 8:
                                            return None
                                        if isinstance(e, ast.Call):
                                            if isinstance(e.func, ast.Attribute) and e.func.attr == 'end':
                                                return 'yes'
                                            if dotted(e.func) == 'len':
                                                return 'yes'            # len(chunk) is >= any match end
                                            if dotted(e.func) in ('min', 'max'):
                                                parts = e.args[0].elts if len(e.args) == 1 and isinstance(e.args[0], (ast.Tuple, ast.List)) else e.args
                                                rs = [geq_end(x, depth + 1) for x in parts]
                                                if dotted(e.func) == 'min':
                                                    return 'no' if 'no' in rs else ('yes' if all(r == 'yes' for r in rs) else None)
                                                return 'yes' if 'yes' in rs else ('no' if all(r == 'no' for r in rs) else None)
                                            return None
                                        if isinstance(e, ast.BinOp) and isinstance(e.op, ast.Add):
                                            l_, r_ = geq_end(e.left, depth + 1), geq_end(e.right, depth + 1)
                                            return 'yes' if 'yes' in (l_, r_) else None
                                        if isinstance(e, ast.BinOp) and isinstance(e.op, ast.Sub):
                                            # (something clipped at the text end) - (a context width): may fall back behind the match
                                            if isinstance(e.right, (ast.Name, ast.Constant)) and not (isinstance(e.right, ast.Constant) and e.right.value == 0):
                                                return 'no'
                                            return None
                                        if isinstance(e, ast.Name):
                                            if e.id in ('max_end',):
                                                return 'yes'
                                            node_ = _flow.stmt_node(cfg_, e)
                                            rs = []
                                            for d_ in rd_.reaching(node_, e.id):
                                                if d_[0] == 'param':
                                                    return None
                                                v_ = rd_.defs[d_]
                                                rs.append(geq_end(v_, depth + 1) if isinstance(v_, ast.AST) else None)
                                            if rs and all(r == 'yes' for r in rs):
                                                return 'yes'
                                            return 'no' if 'no' in rs else None
                                        return None
                                    if geq_end(a_.value) == 'no':
                                        n += 1
                                        ctx.violation('PROGRESS', f"{fi.qualname}: the next search position `{cur}` is not before the end of the last match",
                                                      f"`{norm(a_)}` subtracts a context width from a position that was clipped at the end of the text: "
                                                      f"near the end of a chunk the result lies before the match just handled, so the same word is "
                                                      f"found again forever", key=f"PROGRESS|{fi.qualname}|{cur}|behind-match", where=common.loc(fi, a_))
                                        continue
                                    has_end = derives(a_.value, 'end')
                                    seen_.clear()
                                    has_start = derives(a_.value, 'start') or any(
                                        isinstance(x, ast.Call) and dotted(x.func) == 'len' for x in ast.walk(a_.value))
                                    calls = {'end'} if has_end else ({'start'} if has_start else set())
                                    n += 1
                                    ctx.tri('end' in calls, 'end' not in calls and ('start' in calls or 'len' in calls), 'PROGRESS',
                                            f"{fi.qualname}: the next search position `{cur}` derives from the end of a match",
                                            f"`{norm(a_)}`",
                                            f"`{norm(a_)}` is built from a start offset / a length, not from the end of a match: when "
                                            f"the text in between is empty after stripping, the position does not move and the same "
                                            f"word is found forever", key=f"PROGRESS|{fi.qualname}|{cur}|advance", where=common.loc(fi, a_))
    if n == 0:
        ctx.undecided('PROGRESS', 'scan cursors derive from the end of a match', 'no `search(..., pos=cursor)` loop recognised')


def _fixpoint_tokens(ctx):
    # constant replacements are fixed points of their own regex
    defs = ctx.fold.get('tract_preprocess', 'QQ_SCRUBBER_DEFINITIONS')
    if not isinstance(defs, dict) or not defs:
        raise AnalysisError("QQ_SCRUBBER_DEFINITIONS does not fold to a dict")
    for rv, token in defs.items():
        if not isinstance(rv, RegexVal) or not isinstance(token, str):
            raise AnalysisError("QQ_SCRUBBER_DEFINITIONS entry is not regex -> str")
        L = common.lang(ctx, rv)
        spans = [sp for sp in L.search_spans(token) if sp[1] > sp[0]]
        stable = L.fullmatch(token) and all(sp[0] == 0 for sp in spans)
        ctx.check(stable, 'FIXPOINT', f"{rv.name} -> {token!r}",
                  "replacement is matched as a whole by its own regex and no match starts inside it (rewritten to itself)",
                  f"the replacement {token!r} is re-matched partially by {rv.name} "
                  f"(spans {spans}): substitution does not stabilise on its own output",
                  key=f"FIXPOINT|{rv.name}|selfmatch")


def _progress(ctx):
    """while True scanning loops in the unpackers and TractParser.parse."""
    sites = []
    for spec in ('LotUnpacker.unpack_lots', 'SecUnpacker.unpack_sections',
                 'TractParser.parse', 'ChunkParser.gen_flags_chunk'):
        fi = ctx.repo.func(spec)
        for n in walk_local(fi.node):
            if isinstance(n, ast.While) and isinstance(n.test, ast.Constant) \
                    and n.test.value is True:
                sites.append((fi, n))
    ctx.floor('while-True scanning loops', len(sites), 2)
    for fi, loop in sites:
        construct = f"{fi.qualname}: while True @{_loop_sig(loop)}"
        has_break = any(isinstance(n, ast.Break) for n in _walk_same_loop(loop))
        # the regex search in the loop and its cursor argument
        searches = [c for c in ast.walk(loop) if isinstance(c, ast.Call)
                    and isinstance(c.func, ast.Attribute) and c.func.attr == 'search']
        cursor_ok = True
        why = 'break reachable'
        if not has_break:
            ctx.violation('PROGRESS', construct, "no break in a `while True` loop",
                          key=f"PROGRESS|{fi.qualname}|{_loop_sig(loop)}|nobreak",
                          where=common.loc(fi, loop))
            continue
        # cursor names: names used as pos=/endpos= keyword or as the subject
        cursors = set()
        for c in searches:
            if enclosing_loop(c) is not loop:
                continue
            for kw in c.keywords:
                if kw.arg in ('pos', 'endpos') and isinstance(kw.value, ast.Name):
                    cursors.add(kw.value.id)
            if not c.keywords and c.args and isinstance(c.args[0], ast.Name):
                cursors.add(c.args[0].id)
        if not cursors:
            ctx.ok('PROGRESS', construct, 'inner context-extension loop (bounded by its break)')
            continue
        for cur in sorted(cursors):
            if not _assigned_on_all_paths(loop.body, cur):
                cursor_ok = False
                ctx.violation(
                    'PROGRESS', construct,
                    f"cursor `{cur}` of the scanning search is not re-assigned on "
                    f"every path through the loop body",
                    key=f"PROGRESS|{fi.qualname}|{cur}",
                    where=common.loc(fi, loop))
        if cursor_ok:
            ctx.ok('PROGRESS', construct,
                   f"cursor(s) {sorted(cursors)} re-assigned on every non-breaking path")


def _loop_sig(loop):
    for n in ast.walk(loop):
        if isinstance(n, ast.Call) and isinstance(n.func, ast.Attribute) and n.func.attr == 'search':
            return norm(n.func.value)
    return 'loop'


def enclosing_loop(node):
    n = parent(node)
    while n is not None and not isinstance(n, (ast.While, ast.For, ast.FunctionDef)):
        n = parent(n)
    return n if isinstance(n, (ast.While, ast.For)) else None


def _walk_same_loop(loop):
    stack = list(loop.body)
    while stack:
        n = stack.pop()
        yield n
        for c in ast.iter_child_nodes(n):
            if isinstance(c, (ast.While, ast.For, ast.FunctionDef, ast.Lambda)):
                continue
            stack.append(c)


def _assigned_on_all_paths(body, name):
    """Every path through ``body`` that reaches its end (does not break/
    return/raise) assigns ``name``.  Path-sensitive over side-effect-free
    conditions: ``if c: name = ...`` followed by ``if not c: break`` is
    recognised (the set U holds the literals known true on every path that
    has not assigned yet; a literal dies when one of its names is assigned)."""
    def lit(test):
        pol = True
        while isinstance(test, ast.UnaryOp) and isinstance(test.op, ast.Not):
            pol = not pol
            test = test.operand
        if any(isinstance(n, (ast.Call, ast.Await, ast.NamedExpr)) for n in ast.walk(test)):
            return None
        return norm(test), pol

    def assigned_names(st):
        out = set()
        for n in ast.walk(st):
            if isinstance(n, ast.Name) and isinstance(n.ctx, (ast.Store, ast.Del)):
                out.add(n.id)
        return out

    def kill(U, st):
        dead = assigned_names(st)
        if not dead:
            return U
        return frozenset(l for l in U
                         if not (set(re.findall(r'[A-Za-z_][A-Za-z_0-9]*', l[0])) & dead))

    def stmts(bl, U):
        for st in bl:
            r, U = one(st, U)
            U = kill(U, st)
            if r in ('assigned', 'exits', 'none-continue'):
                return r, U
        return 'none', U

    def one(st, U):
        if isinstance(st, (ast.Break, ast.Return, ast.Raise)):
            return 'exits', U
        if isinstance(st, ast.Continue):
            return 'none-continue', U
        if isinstance(st, (ast.Assign, ast.AugAssign, ast.AnnAssign)):
            tg = st.targets if isinstance(st, ast.Assign) else [st.target]
            for t in tg:
                for n in ast.walk(t):
                    if isinstance(n, ast.Name) and n.id == name:
                        return 'assigned', U
            return 'none', U
        if isinstance(st, ast.If):
            L = lit(st.test)
            if L is not None and L in U:
                return stmts(st.body, U)
            if L is not None and (L[0], not L[1]) in U:
                return stmts(st.orelse, U) if st.orelse else ('none', U)
            Ua = U | {L} if L else U
            Ub = U | {(L[0], not L[1])} if L else U
            a, Ua = stmts(st.body, Ua)
            b, Ub = stmts(st.orelse, Ub) if st.orelse else ('none', Ub)
            done = ('assigned', 'exits')
            if a in done and b in done:
                return ('assigned' if 'assigned' in (a, b) else 'exits'), U
            if 'none-continue' in (a, b):
                return 'none-continue', U
            if a in done:
                return 'none', Ub
            if b in done:
                return 'none', Ua
            return 'none', Ua & Ub
        if isinstance(st, (ast.With,)):
            return stmts(st.body, U)
        if isinstance(st, ast.Try):
            return stmts(st.body + st.finalbody, U)
        return 'none', U
    r, _ = stmts(body, frozenset())
    return r in ('assigned', 'exits')
