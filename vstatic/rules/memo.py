"""
MEMO: result caches ("parse only once", "unpack each block once") keep the
behaviour of the uncached code only if

  KEY      everything the skipped computation reads and that can differ
           between two look-ups during the life of the cache takes part in
           the look-up BY VALUE (a parameter that is left out of the key, or
           an object that is only compared by identity / length although its
           content is what the computation reads, gives stale answers);
  EFFECTS  a hit leaves the object in the state a miss would have produced
           (every attribute of ``self`` the skipped call writes or grows is
           also restored on the hit path).

The rule looks for the memo shape - a store ``S[k] = v`` / ``S = (k, v)`` /
``S.setdefault(k, v)`` into something that outlives the call, with a look-up
of the same ``S`` in the same function - anywhere in the given functions, so
it has an empty baseline on the pinned tree (its one cache, TRS.__CACHE,
stores and looks up in different functions and is checked by C15's own
PURITY rules).  ``functools.lru_cache`` / ``cache`` decorated functions are
keyed by their parameters by construction; for those the rule asks that the
body reads nothing else that can change (attributes of ``self``, MasterConfig
settings).

Unrecognised shapes are skipped (no verdict), never reported.
"""

import ast

from ..srcmodel import walk_local, dotted, norm
from . import common

_MUTATORS = ('append', 'extend', 'insert', 'update', 'add', 'setdefault', 'pop', 'remove', 'clear',
             'discard', 'popitem', 'sort', 'reverse')


# ----------------------------------------------------------------------
def attr_effects(ctx, fi, depth=3, _seen=None):
    """attributes of self that ``fi`` rebinds or mutates in place (through
    self.method() calls as well)"""
    _seen = _seen if _seen is not None else set()
    if fi.fullname in _seen:
        return set()
    _seen.add(fi.fullname)
    out = set()
    for n in walk_local(fi.node):
        tgts = []
        if isinstance(n, ast.Assign):
            tgts = n.targets
        elif isinstance(n, (ast.AugAssign, ast.AnnAssign)):
            tgts = [n.target]
        for t in tgts:
            for x in (t.elts if isinstance(t, (ast.Tuple, ast.List)) else [t]):
                while isinstance(x, ast.Subscript):
                    x = x.value
                if isinstance(x, ast.Attribute) and isinstance(x.value, ast.Name) and x.value.id == 'self':
                    out.add(x.attr)
        if isinstance(n, ast.Call) and isinstance(n.func, ast.Attribute):
            v = n.func.value
            if n.func.attr in _MUTATORS and isinstance(v, ast.Attribute) and isinstance(v.value, ast.Name) \
                    and v.value.id == 'self':
                out.add(v.attr)
            if isinstance(v, ast.Name) and v.id == 'self' and depth > 0 and fi.cls is not None:
                m = fi.cls.methods.get(n.func.attr)
                if m is None:
                    o = fi
                    while o.outer is not None:
                        o = o.outer
                    m = o.cls.methods.get(n.func.attr) if o.cls is not None else None
                if m is not None:
                    out |= attr_effects(ctx, m, depth - 1, _seen)
    return out


def _owner_class(fi):
    o = fi
    while o.outer is not None:
        o = o.outer
    return o.cls


class _Inputs:
    """flow-insensitive closure of what a set of expressions reads, in terms
    of: p:<param>, a:self.<attr>, c:<closure variable>, g:MasterConfig.<attr>"""

    def __init__(self, ctx, fi):
        self.ctx, self.fi = ctx, fi
        self.params = set(fi.params()) - {'self', 'cls'}
        self.defs = {}      # local name -> [expr nodes that feed it]
        assigned = set()
        for n in walk_local(fi.node):
            if isinstance(n, ast.Assign):
                for t in n.targets:
                    self._feed(t, n.value)
            elif isinstance(n, ast.AugAssign):
                self._feed(n.target, n.value)
            elif isinstance(n, ast.AnnAssign) and n.value is not None:
                self._feed(n.target, n.value)
            elif isinstance(n, (ast.For, ast.comprehension)):
                self._feed(n.target, n.iter)
            elif isinstance(n, ast.NamedExpr):
                self._feed(n.target, n.value)
            elif isinstance(n, ast.withitem) and n.optional_vars is not None:
                self._feed(n.optional_vars, n.context_expr)
            elif isinstance(n, ast.Call) and isinstance(n.func, ast.Attribute) and n.func.attr in _MUTATORS \
                    and isinstance(n.func.value, ast.Name):
                for a in list(n.args) + [k.value for k in n.keywords]:
                    self.defs.setdefault(n.func.value.id, []).append(a)
        self.locals = set(self.defs)
        # closure variables: read here, bound in an enclosing function
        self.closure = set()
        o = fi.outer
        while o is not None:
            for n in walk_local(o.node):
                if isinstance(n, ast.Name) and isinstance(n.ctx, ast.Store):
                    self.closure.add(n.id)
            self.closure |= set(o.params()) - {'self', 'cls'}
            o = o.outer
        self.closure -= self.locals | self.params

    def _feed(self, target, value):
        for x in (target.elts if isinstance(target, (ast.Tuple, ast.List)) else [target]):
            if isinstance(x, ast.Starred):
                x = x.value
            while isinstance(x, ast.Subscript):
                x = x.value
            if isinstance(x, ast.Name):
                self.defs.setdefault(x.id, []).append(value)

    def of(self, nodes, skip_attr=None, skip_names=()):
        out, seen = set(), set(skip_names)
        work = list(nodes)
        while work:
            e = work.pop()
            for n in ast.walk(e):
                if isinstance(n, ast.Attribute) and isinstance(n.value, ast.Name):
                    if n.value.id == 'self' and isinstance(n.ctx, ast.Load):
                        if n.attr != skip_attr and not self._is_method(n):
                            out.add(f"a:self.{n.attr}")
                    elif n.value.id == 'MasterConfig' and n.attr == n.attr.lower() and not n.attr.startswith('__'):
                        out.add(f"g:MasterConfig.{n.attr}")      # a setting (lower case); the _UPPER tables are constants
                elif isinstance(n, ast.Name) and isinstance(n.ctx, ast.Load):
                    if n.id in self.params:
                        out.add(f"p:{n.id}")
                    if n.id in self.locals and n.id not in seen:
                        seen.add(n.id)
                        work.extend(self.defs[n.id])
                    elif n.id in self.closure:
                        out.add(f"c:{n.id}")
        return out

    def _is_method(self, attr_node):
        p = getattr(attr_node, '_parent', None)
        return isinstance(p, ast.Call) and p.func is attr_node


def _store_sites(fi):
    """(stmt, S expr, key expr, value expr) for memo-like stores in fi"""
    for n in walk_local(fi.node):
        if isinstance(n, ast.Assign):
            for t in n.targets:
                if isinstance(t, ast.Subscript) and dotted(t.value):
                    yield n, t.value, t.slice, n.value
                elif isinstance(t, ast.Attribute) and dotted(t) and isinstance(t.value, ast.Name) and t.value.id in ('self', 'cls'):
                    if isinstance(n.value, ast.Tuple) and len(n.value.elts) == 2 and len(n.targets) == 1:
                        yield n, t, n.value.elts[0], n.value.elts[1]
                    elif len(n.targets) == 1 and not isinstance(n.value, ast.Constant):
                        # "key of the last result": `self._last_key = key`, compared with `key == self._last_key`
                        want = norm(n.value)
                        for c in walk_local(fi.node):
                            if isinstance(c, ast.Compare) and len(c.ops) == 1 and isinstance(c.ops[0], (ast.Eq, ast.NotEq)) \
                                    and {norm(c.left), norm(c.comparators[0])} == {want, norm(t)}:
                                yield n, t, n.value, ast.Constant(value=None)
                                break
        elif isinstance(n, ast.Expr) and isinstance(n.value, ast.Call) and isinstance(n.value.func, ast.Attribute) \
                and n.value.func.attr == 'setdefault' and len(n.value.args) == 2 and dotted(n.value.func.value):
            yield n, n.value.func.value, n.value.args[0], n.value.args[1]


def _lookups(fi, s_txt):
    """nodes in fi that read the store (membership test, .get, subscript load)"""
    out = []
    for n in walk_local(fi.node):
        if isinstance(n, ast.Compare) and any(isinstance(o, (ast.In, ast.NotIn)) for o in n.ops) \
                and any(norm(c) == s_txt for c in n.comparators):
            out.append(n)
        elif isinstance(n, ast.Call) and isinstance(n.func, ast.Attribute) and n.func.attr == 'get' \
                and norm(n.func.value) == s_txt:
            out.append(n)
        elif isinstance(n, ast.Subscript) and isinstance(n.ctx, ast.Load) and norm(n.value) == s_txt:
            out.append(n)
        elif isinstance(n, ast.Compare) and len(n.ops) == 1 and isinstance(n.ops[0], (ast.Eq, ast.NotEq)) \
                and s_txt in (norm(n.left), norm(n.comparators[0])):
            out.append(n)
    return out


def _block_of(stmt):
    p = getattr(stmt, '_parent', None)
    for field in ('body', 'orelse', 'finalbody'):
        blk = getattr(p, field, None)
        if isinstance(blk, list) and stmt in blk:
            return p, field, blk
    if isinstance(p, ast.ExceptHandler) and stmt in p.body:
        return p, 'body', p.body
    return p, None, None


def _lifetime(ctx, fi, s_expr):
    """'call' (a local of fi: not a cache), 'outer-call' (closure variable),
    'object', 'process'"""
    root = s_expr
    while isinstance(root, (ast.Attribute, ast.Subscript)):
        root = root.value
    if not isinstance(root, ast.Name):
        return 'call'
    if root.id == 'self':
        # a class-level container reached through self is shared by all objects
        ci = _owner_class(fi)
        if isinstance(s_expr, ast.Attribute) and ci is not None:
            for st in ci.node.body:
                if isinstance(st, (ast.Assign, ast.AnnAssign)):
                    for t in (st.targets if isinstance(st, ast.Assign) else [st.target]):
                        if isinstance(t, ast.Name) and t.id == s_expr.attr:
                            return 'process'
        return 'object'
    if root.id == 'cls' or root.id[:1].isupper():
        return 'process'
    for n in walk_local(fi.node):
        if isinstance(n, ast.Name) and isinstance(n.ctx, ast.Store) and n.id == root.id:
            return 'call'
    if root.id in fi.params():
        return 'call'
    o = fi.outer
    while o is not None:
        for n in walk_local(o.node):
            if isinstance(n, ast.Name) and isinstance(n.ctx, ast.Store) and n.id == root.id:
                return 'outer-call'
        o = o.outer
    return 'process'


def _always_exits(block):
    return bool(block) and isinstance(block[-1], (ast.Return, ast.Raise, ast.Continue, ast.Break))


def memo_sites(ctx, funcs, rule='MEMO'):
    n_sites = 0
    for fi in funcs:
        done = set()
        for st, s_expr, k_expr, v_expr in _store_sites(fi):
            s_txt = norm(s_expr)
            if s_txt in done:
                continue
            life = _lifetime(ctx, fi, s_expr)
            if life == 'call':
                continue
            looks = _lookups(fi, s_txt)
            if not looks:
                continue
            owner, field, blk = _block_of(st)
            if blk is None:
                continue
            # the statements only a miss executes
            miss = list(blk[:blk.index(st)]) + [v_expr]
            guard = None
            hit_block = []
            # (a) `if <asks the cache>: ...; return` in front of the store, in any enclosing block
            cur = st
            while guard is None and cur is not None and cur is not fi.node:
                o2, f2, b2 = _block_of(cur)
                if b2 is not None:
                    for prev in b2[:b2.index(cur)]:
                        if isinstance(prev, ast.If) and _always_exits(prev.body) and \
                                any(l is x for l in looks for x in ast.walk(prev.test)):
                            guard = prev
                            hit_block = prev.body
                            miss = list(b2[b2.index(prev) + 1:b2.index(cur)]) + [cur if cur is not st else v_expr]
                cur = o2 if b2 is not None else None
            if guard is not None:
                pass
            elif isinstance(owner, ast.If):
                guard = owner
                hit_block = owner.orelse if field == 'body' else owner.body
                # `if hit: ...; return` in front of the If that holds the store is still the hit path
            else:
                for prev in blk[:blk.index(st)]:
                    if isinstance(prev, ast.If) and _always_exits(prev.body) and \
                            any(l is x for l in looks for x in ast.walk(prev.test)):
                        guard = prev
                        hit_block = prev.body
                        miss = list(blk[blk.index(prev) + 1:blk.index(st)]) + [v_expr]
                if guard is None:
                    for prev in blk[:blk.index(st)]:
                        if isinstance(prev, ast.Try) and any(l is x for l in looks for b in prev.body for x in ast.walk(b)):
                            guard = prev
                            hit_block = prev.body
                            miss = list(blk[blk.index(prev) + 1:blk.index(st)]) + [v_expr]
            if guard is None:
                continue
            if isinstance(guard, ast.If):
                # the test must ask the cache: it holds a look-up, or a name bound from one
                inp0 = _Inputs(ctx, fi)
                asks = any(l is x for l in looks for x in ast.walk(guard.test))
                for nm in ast.walk(guard.test):
                    if not asks and isinstance(nm, ast.Name) and nm.id in inp0.defs:
                        asks = any(l is x for d in inp0.defs[nm.id] for l in looks for x in ast.walk(d))
                    if not asks and isinstance(nm, ast.Attribute) and norm(nm) == s_txt:
                        asks = True
                if not asks:
                    continue
            done.add(s_txt)
            n_sites += 1
            where = common.loc(fi, st)
            construct = f"{fi.qualname}: cache `{s_txt}`"
            inp = _Inputs(ctx, fi)
            skip_attr = s_expr.attr if isinstance(s_expr, ast.Attribute) and norm(s_expr.value) == 'self' else None
            MI = inp.of(miss, skip_attr)
            # attributes the skipped computation itself produces are outputs, not inputs
            produced = set()
            for m in miss:
                for c in ast.walk(m):
                    if isinstance(c, ast.Call) and isinstance(c.func, ast.Attribute) and isinstance(c.func.value, ast.Name) \
                            and c.func.value.id == 'self':
                        ci_ = _owner_class(fi)
                        mm_ = ci_.methods.get(c.func.attr) if ci_ is not None else None
                        if mm_ is not None:
                            produced |= attr_effects(ctx, mm_)
                    if isinstance(c, ast.Attribute) and isinstance(c.ctx, ast.Store) and isinstance(c.value, ast.Name) \
                            and c.value.id == 'self':
                        produced.add(c.attr)
            for m in miss:
                for c in ast.walk(m):
                    if isinstance(c, ast.Call) and isinstance(c.func, ast.Attribute) and c.func.attr in _MUTATORS \
                            and isinstance(c.func.value, ast.Attribute) and norm(c.func.value.value) == 'self':
                        produced.add(c.func.value.attr)
            MI -= {f"a:self.{x}" for x in produced}
            # what takes part in the look-up by value / only by identity
            by_value_nodes, by_ident_nodes, cond_nodes = [k_expr], [], []
            test = guard.test if isinstance(guard, ast.If) else None
            if test is not None:
                for c in ast.walk(test):
                    if isinstance(c, ast.Compare):
                        ops = c.ops
                        operands = [c.left] + list(c.comparators)
                        if any(isinstance(x, ast.Constant) for x in operands) and len(operands) == 2 and not any(
                                isinstance(o, (ast.In, ast.NotIn)) for o in ops):
                            cond_nodes.append(c)        # a condition on an input (`candidates is None`), see below
                        elif all(isinstance(o, (ast.Is, ast.IsNot)) for o in ops):
                            by_ident_nodes += operands
                        elif any(isinstance(x, ast.Call) and dotted(x.func) in ('len', 'id') for x in operands):
                            by_ident_nodes += operands
                        else:
                            by_value_nodes += operands
            for l in looks:
                if isinstance(l, ast.Call):
                    by_value_nodes += l.args[:1]
                elif isinstance(l, ast.Compare) and isinstance(l.ops[0], (ast.Eq, ast.NotEq)):
                    by_value_nodes += [x for x in (l.left, l.comparators[0]) if norm(x) != s_txt]
                elif isinstance(l, ast.Compare):
                    by_value_nodes.append(l.left)
                elif isinstance(l, ast.Subscript):
                    by_value_nodes.append(l.slice)
            # (the store itself is not an input: following it would lead to the values kept in it)
            root_ = s_expr
            while isinstance(root_, (ast.Attribute, ast.Subscript)):
                root_ = root_.value
            skip_n = (root_.id,) if isinstance(root_, ast.Name) and root_.id not in ('self', 'cls') else ()
            KI = inp.of(by_value_nodes, skip_attr, skip_n)
            ID = inp.of(by_ident_nodes, skip_attr, skip_n) - KI
            fixed = set()
            if life == 'outer-call':
                fixed = {a for a in MI if a.startswith(('c:', 'g:'))}
            if life == 'object':
                fixed = {a for a in MI if a.startswith('g:')} & KI   # nothing is fixed for an object-lived cache
            missing = sorted(MI - KI - fixed)
            # an input that is not in the key but is pinned by a condition of the hit test
            # (`if candidates is None and text in CACHE`) is fine if the cache is FILLED under the
            # same condition; filled unconditionally, it serves a value computed for other inputs
            if cond_nodes and missing:
                from ..srcmodel import facts_at, literals as _lits
                store_facts = {(t, p) for _e, t, p in facts_at(st)}
                for c in cond_nodes:
                    atoms = inp.of([c], skip_attr, skip_n) & set(missing)
                    if not atoms:
                        continue
                    cl = [(t, p) for _e, t, p in _lits([(c, True)])]
                    pinned = all(x in store_facts for x in cl)
                    pretty_ = ', '.join(a.split(':', 1)[1] for a in sorted(atoms))
                    ctx.check(pinned, rule, f"{construct}: the cache is filled under the condition it is read under (`{norm(c)}`)",
                              detail_bad=f"a hit requires `{norm(c)}`, but `{norm(st)[:50]}` stores the result for EVERY value of "
                                         f"{pretty_}: a call with another {pretty_} leaves its answer under the same key, and the "
                                         f"next ordinary call is served that answer",
                              key=f"{rule}|{fi.qualname}|{s_txt}|fill-condition|{','.join(sorted(atoms))}", where=where)
                    missing = [a for a in missing if a not in atoms]
            ident = [a for a in missing if a in ID]
            plain = [a for a in missing if a not in ID]
            pretty = lambda xs: ', '.join(x.split(':', 1)[1] for x in xs)
            ctx.check(not plain, rule, f"{construct}: everything the skipped computation reads is part of the key",
                      f"key `{norm(k_expr)[:60]}`; skipped: {pretty(sorted(MI)) or '-'}",
                      f"the skipped computation reads {pretty(plain)}, which the look-up (`{norm(k_expr)[:60]}`) leaves out: "
                      f"a second call that differs only there gets the earlier result",
                      key=f"{rule}|{fi.qualname}|{s_txt}|key|{','.join(plain)}", where=where)
            ctx.check(not ident, rule, f"{construct}: what the skipped computation reads is compared by value",
                      detail_bad=f"{pretty(ident)} is only compared by identity / length, but the skipped computation reads its "
                                 f"content: after an in-place change (re-parse of the tracts, sort, edited attribute) the "
                                 f"cached result is stale",
                      key=f"{rule}|{fi.qualname}|{s_txt}|identity|{','.join(ident)}", where=where)
            # effects parity
            W = set()
            for m in miss:
                for c in ast.walk(m):
                    if isinstance(c, ast.Call) and isinstance(c.func, ast.Attribute) and c.func.attr in _MUTATORS \
                            and isinstance(c.func.value, ast.Attribute) and isinstance(c.func.value.value, ast.Name) \
                            and c.func.value.value.id == 'self':
                        W.add(c.func.value.attr)        # self.w_flags.extend(...) only on a miss
                    if isinstance(c, ast.Call) and isinstance(c.func, ast.Attribute) and isinstance(c.func.value, ast.Name) \
                            and c.func.value.id == 'self':
                        ci = _owner_class(fi)
                        mm = ci.methods.get(c.func.attr) if ci is not None else None
                        if mm is not None:
                            W |= attr_effects(ctx, mm)
            if W:
                H = set()
                for hs in hit_block:
                    for c in ast.walk(hs):
                        if isinstance(c, ast.Attribute) and isinstance(c.value, ast.Name) and c.value.id == 'self':
                            H.add(c.attr)
                lost = sorted(W - H - ({skip_attr} if skip_attr else set()))
                # attributes restored by name at run time (setattr loop, __dict__.update): not decided here
                dynamic = any(isinstance(c, ast.Call) and (
                    (dotted(c.func) == 'setattr' and c.args and norm(c.args[0]) == 'self'
                     and not (len(c.args) > 1 and isinstance(c.args[1], ast.Constant)))
                    or norm(c.func) in ('self.__dict__.update', 'vars(self).update')) for hs in hit_block for c in ast.walk(hs))
                for hs in hit_block:
                    for c in ast.walk(hs):
                        if isinstance(c, ast.Call) and dotted(c.func) == 'setattr' and len(c.args) > 1 \
                                and norm(c.args[0]) == 'self' and isinstance(c.args[1], ast.Constant):
                            H.add(c.args[1].value)
                lost = sorted(set(lost) - H)
                if lost and dynamic:
                    ctx.undecided(rule, f"{construct}: a hit restores every attribute the skipped call sets",
                                  "the hit path restores attributes by computed name (setattr loop)")
                    continue
                ctx.check(not lost, rule, f"{construct}: a hit restores every attribute the skipped call sets",
                          f"{sorted(W)}",
                          f"the skipped call writes / grows self.{', self.'.join(lost)}; the hit path never touches "
                          f"{'them' if len(lost) > 1 else 'it'}: an object served from the cache lacks what a freshly "
                          f"computed one has (flags, warnings)",
                          key=f"{rule}|{fi.qualname}|{s_txt}|effects|{','.join(lost)}", where=where)
    return n_sites


def cached_functions(ctx, funcs, rule='MEMO'):
    n = 0
    for fi in funcs:
        decos = [dotted(d.func) if isinstance(d, ast.Call) else dotted(d) for d in fi.node.decorator_list]
        if not any(d and d.split('.')[-1] in ('lru_cache', 'cache', 'cached_property') for d in decos):
            continue
        n += 1
        inp = _Inputs(ctx, fi)
        body_inputs = inp.of(fi.node.body)
        extra = sorted(a for a in body_inputs if a.startswith(('a:', 'g:', 'c:')))
        # settings read by callees (one level) count as well
        for c in walk_local(fi.node):
            if isinstance(c, ast.Call):
                from .forward import resolve
                r = resolve(ctx, fi, c)
                if r:
                    for x in ast.walk(r[0].node):
                        if isinstance(x, ast.Attribute) and isinstance(x.value, ast.Name) and x.value.id == 'MasterConfig' \
                                and x.attr == x.attr.lower():
                            extra.append(f"g:MasterConfig.{x.attr} (in {r[0].qualname})")
        ctx.check(not extra, rule, f"{fi.qualname}: the cached function depends on its parameters only",
                  detail_bad=f"the result is cached per argument tuple but also depends on "
                             f"{', '.join(x.split(':', 1)[1] for x in extra)}",
                  key=f"{rule}|{fi.qualname}|decorated|{','.join(extra)}", where=fi.loc)
    return n


def check(ctx, funcs, rule='MEMO'):
    a = memo_sites(ctx, funcs, rule)
    b = cached_functions(ctx, funcs, rule)
    ctx.ok(rule, f"result caches in {len(funcs)} functions", f"{a} store/look-up caches, {b} decorated functions")
    return a + b
