"""
C08 -- Twp/Rge spellings are equivalent; missing directions come from
defaults only.
"""

import ast
import re

from .. import AnalysisError, rx, flow
from ..fold import RegexVal
from ..srcmodel import walk_local, norm, dotted, guards, literals
from . import common, families as F

from . import forward

from .c13 import lockdown

META = {
    'explanation': (
        "Language inclusion of the documented Twp/Rge spelling families in the "
        "repo's regexes (on-the-fly subset construction over position "
        "automata), exact membership of negative examples, agreement of the "
        "scrubber tables, and def-use facts in unpack_twprge (an explicit "
        "direction letter reaches the output on every path where its group "
        "matched; numbers pass through int; defaults validated and read at "
        "call time). Decides these structural clauses, not which of two "
        "overlapping matches finditer prefers on arbitrary text."
        ' Also: lock-down of default_ns/default_ew/ocr_scrub (guard asks about the argument; attribute not read again), an omitted default falls back to MasterConfig.<p> (not a frozen constant), the settings are known to Config, sub_scrubber replaces by position.'
        " Round 7: the OCR pattern's N/S group is mandatory while the number class contains 'S'; Twp/Rge negatives on section lists; the config word dispatch sends layout names to .layout (not to a direction); PLSSDesc.parse feeds the parser the original text."
        ' Round 8: whoever reads `rgenum` reads its alternative `rgenum_edgecase_rge2` (exclusive groups from the branch structure); the list of Twp/Rges present before scrubbing is not padded.'
        ' Round 11: the OCR look-alike table is read through chained .replace() calls or a str.maketrans table.'
        ' Round 12: every shape of township / range number (each leading digit, 1-3 digits) is matched by the exact matcher (look-aheads are invisible to language inclusion).'),
    'assumptions': [
        "zero-width assertions are epsilon in the inclusion test (the repo "
        "regex is over-approximated, so a reported counterexample is a true "
        "non-member; a pass may miss assertion-only regressions)",
    ],
    'families': ['RX-LANG', 'TBL', 'DEFUSE', 'GLOBALS', 'FORWARD', 'DEADPARAM', 'SIB-DEFAULTS'],
}


def _inc(ctx, rule, name, fam, rv, what):
    cex = ctx.cache(('inc', fam, rv.pattern, rv.flags),
                    lambda: rx.included(fam, re.I, rv.pattern, rv.flags))
    ctx.check(cex is None, rule, f"{what} <= L({name})",
              "family included",
              f"documented spelling {cex!r} is no longer matched as a whole by {name}",
              key=f"{rule}|{name}|{what}", witness=repr(cex))


def twprge_negatives(ctx, rule='RX-LANG-NEG'):
    """no Twp/Rge pattern fires inside a section / lot list that is followed by an E/W aliquot"""
    n = 0
    for name in ('twprge_regex', 'pp_twprge_no_nswe', 'pp_twprge_no_nsr', 'pp_twprge_no_ewt', 'pp_twprge_ocr_scrub'):
        try:
            rv = ctx.fold.get('rgxlib.twprge', name)
        except AnalysisError:
            continue
        L = common.lang(ctx, rv)
        hits = []
        for w in F.NOT_TWPRGE:
            sp = [s_ for s_ in L.search_spans(w) if s_[1] > s_[0]]
            if sp:
                hits.append((w, w[sp[0][0]:sp[0][1]]))
        n += 1
        ctx.check(not hits, rule, f"{name} does not fire inside a section / lot list",
                  f"{len(F.NOT_TWPRGE)} lists tried",
                  f"{name} matches {hits[0][1]!r} in {hits[0][0]!r}: the end of a section list and the E/W of the aliquot after it "
                  f"are read (and, by the preprocessor, rewritten) as a Twp/Rge, so the sections collapse into one bogus tract"
                  if hits else '', key=f"{rule}|{name}|section-list", where='pytrs/parser/rgxlib/twprge.py')
    ctx.floor('Twp/Rge patterns tried on section lists', n, 4)


def ocr_direction_is_mandatory(ctx):
    """In the OCR pattern the township number may be written with look-alike
    letters, one of which is 'S' (for 5).  'S' is also a direction.  The two
    readings of 'T15S' are kept apart only because the N/S group is
    mandatory: the last 'S' has to be the direction.  If the group becomes
    optional the number class takes the 'S' ('15S' -> 155) and the explicit
    South is replaced by the default direction."""
    from .. import rx as _rx
    rv = ctx.fold.get('rgxlib.twprge', 'pp_twprge_ocr_scrub')
    gf = common.group_facts(ctx, rv)
    construct = "pp_twprge_ocr_scrub: an explicit N/S cannot be read as a look-alike digit"
    if 'twpnum' not in gf or 'ns' not in gf:
        ctx.undecided('RX-GROUPS', construct, 'groups twpnum / ns not found')
        return
    cls_chars = set()
    for it in gf['twpnum'].node:
        for sub in ast_walk_sre(it):
            for ch in 'NnSs':
                if sub[0] in _rx.SINGLE and _rx.char_matches(sub[0], sub[1], ch, rv.flags):
                    cls_chars.add(ch)
    overlap = sorted(cls_chars)
    ctx.check(not (overlap and gf['ns'].optional), 'RX-GROUPS', construct,
              f"number class letters {overlap}; ns optional={gf['ns'].optional}",
              f"the township-number class accepts {overlap} and the N/S group is optional: in 'T15S-R9E' the class takes the S "
              f"(155) and no direction is left, so an explicit South is overridden by default_ns (T155N) and a bogus "
              f"fixed_twprge warning appears", key="RX-GROUPS|pp_twprge_ocr_scrub|ns-optional",
              where='pytrs/parser/rgxlib/twprge.py')


def ast_walk_sre(item):
    """all (op, av) items inside one parsed regex item"""
    import re._constants as _C
    from .. import rx as _rx
    op, av = item
    yield item
    if op is _C.SUBPATTERN:
        for x in av[3]:
            yield from ast_walk_sre(x)
    elif op is _C.BRANCH:
        for alt in av[1]:
            for x in alt:
                yield from ast_walk_sre(x)
    elif op in _rx.REPEATS:
        for x in av[2]:
            yield from ast_walk_sre(x)


def _config_words(ctx):
    """the settings this property relies on are understood in a config string"""
    g = lambda a: ctx.fold.get_attr('config.config', 'Config', a)
    allattrs, bools, pl = g('_CONFIG_ATTRIBUTES'), g('_BOOL_TYPE_ATTRIBUTES'), g('_PLSSDESC_ATTRIBUTES')
    for name, table, tname in (('ocr_scrub', bools, '_BOOL_TYPE_ATTRIBUTES'), ('ocr_scrub', allattrs, '_CONFIG_ATTRIBUTES'),
                               ('ocr_scrub', pl, '_PLSSDESC_ATTRIBUTES'), ('default_ns', allattrs, '_CONFIG_ATTRIBUTES'),
                               ('default_ew', allattrs, '_CONFIG_ATTRIBUTES'), ('default_ns', pl, '_PLSSDESC_ATTRIBUTES'),
                               ('default_ew', pl, '_PLSSDESC_ATTRIBUTES')):
        ctx.check(name in table, 'TBL', f"Config.{tname} knows {name!r}",
                  detail_bad=f"{name!r} is missing from Config.{tname}: the word `{name}` in a config string is "
                             f"silently ignored / not handed to the description", key=f"TBL|Config.{tname}|{name}")


def _by_position(ctx):
    """each found Twp/Rge is rewritten where it stands (not every occurrence of its characters)"""
    fi = ctx.repo.func('plss_preprocess:sub_scrubber')
    bad = common.replace_by_text(ctx, fi)
    ctx.check(not bad, 'SINK', 'sub_scrubber rewrites the matched span, not the matched text wherever it occurs',
              detail_bad=f"`{norm(bad[0])[:70] if bad else ''}` replaces by text: a short Twp/Rge that is a prefix of a later one "
                         f"('T4N-R9:' / 'T4N-R97:') rewrites the later one too, which is then read with the wrong range",
              key="SINK|sub_scrubber|bytext", where=common.loc(fi, bad[0]) if bad else None)


def _deadspace_siblings(ctx):
    """The Twp/Rge regexes are siblings: each has the same slots (twpnum, ns,
    rgenum, ew) separated by a "deadspace" character class.  The class in
    front of a given slot must be the same in every sibling that has the
    slot; a sibling whose class is narrower rejects spellings (e.g. a dash
    before E/W) that the others and the documented forms accept."""
    import re._constants as C
    names = ('twprge_regex', 'pp_twprge_no_nswe', 'pp_twprge_no_nsr', 'pp_twprge_no_ewt', 'pp_twprge_ocr_scrub')
    slots = {}

    def charset(items):
        out = set()
        for o, v in items:
            if o is C.LITERAL:
                out.add(chr(v))
            elif o is C.RANGE:
                out.update(chr(c) for c in range(v[0], min(v[1], v[0] + 200) + 1))
            elif o is C.CATEGORY:
                out.add(str(v))
        return frozenset(out)

    def walk(sub, rname):
        prev = None
        for op, av in sub:
            if op is C.SUBPATTERN:
                gname = ctx_groups.get(av[0])
                if gname and prev is not None:
                    slots.setdefault(gname, {})[rname] = prev
                walk(av[3], rname)
                prev = None
            elif op in (C.MAX_REPEAT, C.MIN_REPEAT):
                lo, hi, s2 = av
                if len(s2) == 1 and s2[0][0] is C.IN and lo == 0:
                    prev = charset(s2[0][1]) | ({'*'} if hi > 1 else set())      # '*' marks "any number of them"
                elif len(s2) == 1 and s2[0][0] is C.SUBPATTERN:
                    # an optional group: (?P<ew>...)?
                    gname = ctx_groups.get(s2[0][1][0])
                    if gname and prev is not None:
                        slots.setdefault(gname, {})[rname] = prev
                    walk(s2[0][1][3], rname)
                    prev = None
                else:
                    walk(s2, rname)
                    prev = None
            elif op is C.BRANCH:
                for a in av[1]:
                    walk(a, rname)
                prev = None
            else:
                prev = None
    for rname in names:
        rv = ctx.fold.get('rgxlib.twprge', rname)
        tree = rx.parse(rv.pattern, rv.flags)
        ctx_groups = {v: k for k, v in tree.state.groupdict.items()}
        walk(tree, rname)
    n = 0
    for g in ('rgenum', 'ew', 'ns'):
        per = slots.get(g, {})
        if len(per) < 3:
            continue
        from collections import Counter
        major, cnt = Counter(per.values()).most_common(1)[0]
        for rname, cs in sorted(per.items()):
            n += 1
            ctx.check(not (cs < major), 'SIB', f"{rname}: the deadspace in front of <{g}> is as wide as in its sibling regexes",
                      f"{len(cs)} characters / categories",
                      f"{rname} allows only {sorted(cs)} ('*' = repeatable) in front of <{g}> while {cnt} sibling regexes allow {sorted(major)}: "
                      f"a spelling with {sorted(major - cs)} there (e.g. 'R97-E') is no longer recognised by this one, and the "
                      f"written direction is overridden by the default",
                      key=f"SIB|{rname}|deadspace|{g}", where='pytrs/parser/rgxlib/twprge.py')
    if n == 0:
        ctx.undecided('SIB', 'deadspace classes of the Twp/Rge sibling regexes agree', 'slots not recognised')


def check(ctx):
    tw = 'rgxlib.twprge'
    g = lambda n: ctx.fold.get(tw, n)
    ctx.consult('rgxlib/twprge.py', 'unpack/unpackers.py',
                'plssdesc/plss_preprocess.py', 'config/master_config.py')
    twprge = g('twprge_regex')
    ctx.attempt(_inc, 'RX-LANG', 'twprge_regex', F.TWPRGE_FULL, twprge, 'full spellings')
    ctx.attempt(_number_witnesses, twprge)
    ctx.attempt(_inc, 'RX-LANG', 'twprge_regex', F.TWPRGE_CANON, twprge, 'canonical T#N-R#W')
    ctx.attempt(_inc, 'RX-LANG', 'pp_twprge_no_nswe', F.TWPRGE_NO_NSWE, g('pp_twprge_no_nswe'), 'T and R, directions missing')
    ctx.attempt(_inc, 'RX-LANG', 'pp_twprge_no_nsr', F.TWPRGE_NO_NSR, g('pp_twprge_no_nsr'), 'T and e/w, n/s and R missing')
    ctx.attempt(_inc, 'RX-LANG', 'pp_twprge_no_ewt', F.TWPRGE_NO_EWT, g('pp_twprge_no_ewt'), 'R and n/s, T and e/w missing')
    ctx.attempt(_inc, 'RX-LANG', 'pp_twprge_ocr_scrub', F.TWPRGE_OCR, g('pp_twprge_ocr_scrub'), 'OCR look-alike digits')
    ctx.attempt(ocr_direction_is_mandatory)
    ctx.attempt(twprge_negatives)
    ctx.attempt(common.alternative_groups_read_together, [f for f in ctx.repo.funcs.values() if '.parser.' in f.module.name + '.'])
    ctx.attempt(_inc, 'RX-LANG', 'pp_twprge_pm', F.TWPRGE_CANON + F.PM_TAIL, g('pp_twprge_pm'), 'Twp/Rge + principal meridian')
    _inc(ctx, 'RX-LANG', 'pp_twprge_comma_remove', F.TWPRGE_FULL + r"[,;:]?[ ]?",
         g('pp_twprge_comma_remove'), 'Twp/Rge + trailing comma')

    # negative examples (exact matcher, incl. look-behind)
    L = common.lang(ctx, twprge)
    for s in ['154N-2W', 'T154N 2W', 'T2N, 2W']:
        ctx.check(not L.fullmatch(s), 'RX-LANG-NEG', f"{s!r} not in L(twprge_regex)",
                  "bare range '2' needs an explicit range word",
                  f"{s!r} (range '2' without 'R') is matched as a Twp/Rge",
                  key=f"RX-LANG-NEG|twprge_regex|{s}")
    for s in ['Lot 2, N2 W2', 'Lots 1, 2, N2 W2']:
        ctx.check(not L.search(s), 'RX-LANG-NEG', f"no Twp/Rge inside {s!r}",
                  "aliquots/lots are not read as a Twp/Rge",
                  f"a Twp/Rge is found inside {s!r}",
                  key=f"RX-LANG-NEG|twprge_regex|search|{s}")
    # group structure the unpacker relies on
    gf = common.group_facts(ctx, twprge)
    for grp in ('twpnum', 'ns', 'rgenum', 'rgenum_edgecase_rge2', 'ew'):
        ctx.check(grp in gf, 'RX-GROUPS', f"twprge_regex has group {grp}",
                  detail_bad=f"group {grp!r} missing from twprge_regex",
                  key=f"RX-GROUPS|twprge_regex|{grp}")

    ctx.attempt(_tables)
    ctx.attempt(_unpack_defuse)
    ctx.attempt(_ocr_table)
    ctx.attempt(_fixed_twprge)
    ctx.attempt(_calltime_defaults)
    ctx.attempt(forward.check_all, module_suffixes=('plssdesc.plssdesc', 'plssdesc.plss_preprocess', 'trs.trs'))
    ctx.attempt(lockdown, ctx.repo.func('PLSSDesc.parse'), only=('default_ns', 'default_ew', 'ocr_scrub'))
    ctx.attempt(lockdown, ctx.repo.func('PLSSDesc.preprocess'), only=('default_ns', 'default_ew', 'ocr_scrub'))
    ctx.attempt(common.embedded_case_consistency, modules=('rgxlib.twprge',))
    ctx.attempt(_config_words)
    ctx.attempt(_by_position)
    ctx.attempt(_deadspace_siblings)
    from .c13 import word_dispatch       # a bare layout word must not be taken for a default direction
    ctx.attempt(word_dispatch)
    from .c14 import fresh_inputs        # preprocess() starts from the original text, not from its own earlier output
    ctx.attempt(fresh_inputs, specs=(('PLSSDesc.preprocess', 'PLSSPreprocessor', 'plss_preprocess'), ('PLSSDesc.parse', 'PLSSParser', 'plss_parse')))
    from .c13 import lockdown as _lockdown
    ctx.attempt(_lockdown, ctx.repo.func('Tract.from_twprgesec'), only=('default_ns', 'default_ew'), source='config')


def _tables(ctx):
    sc = ctx.fold.get('plss_preprocess', 'SCRUBBER_REGEXES')
    if not isinstance(sc, (tuple, list)) or not all(isinstance(x, RegexVal) for x in sc):
        raise AnalysisError("plss_preprocess.SCRUBBER_REGEXES does not fold to regexes")
    names = [x.name for x in sc]
    need = ['twprge_regex', 'pp_twprge_no_nswe', 'pp_twprge_no_nsr',
            'pp_twprge_no_ewt', 'pp_twprge_pm', 'pp_twprge_comma_remove']
    for n in need:
        ctx.check(n in names, 'TBL', f"SCRUBBER_REGEXES contains {n}",
                  detail_bad=f"{n} is not applied by plss_preprocess (SCRUBBER_REGEXES = {names})",
                  key=f"TBL|SCRUBBER_REGEXES|{n}")
    # the comma remover must run after the P.M. scrubber (it would otherwise
    # cut the comma the P.M. pattern starts from) and every filler after the
    # plain twprge pass
    if 'pp_twprge_pm' in names and 'pp_twprge_comma_remove' in names:
        ctx.check(names.index('pp_twprge_pm') < names.index('pp_twprge_comma_remove'),
                  'TBL', 'SCRUBBER_REGEXES order: pm before comma_remove',
                  detail_bad="pp_twprge_comma_remove runs before pp_twprge_pm",
                  key="TBL|SCRUBBER_REGEXES|order")
    ocr = ctx.fold.get('plss_preprocess', 'OCR_SCRUBBER')
    ctx.check(isinstance(ocr, RegexVal) and ocr.name == 'pp_twprge_ocr_scrub',
              'TBL', 'OCR_SCRUBBER is pp_twprge_ocr_scrub',
              detail_bad=f"OCR_SCRUBBER is {ocr!r}", key="TBL|OCR_SCRUBBER")
    # with ocr_scrub the OCR scrubber runs FIRST (the plain pattern's loose
    # `T[ownship]{0,9}` would otherwise swallow a look-alike letter after 'T')
    fpp = ctx.repo.func('plss_preprocess:plss_preprocess')
    ins = [c for c in walk_local(fpp.node) if isinstance(c, ast.Call) and isinstance(c.func, ast.Attribute)
           and c.func.attr == 'insert' and len(c.args) == 2 and 'OCR' in norm(c.args[1]).upper()]
    txt_pp = ' '.join(norm(x) for x in walk_local(fpp.node) if isinstance(x, ast.stmt))
    if ins:
        idx = ins[0].args[0]
        v = ctx.fold.eval(idx, {}, fpp.module.name)
        first = v == 0
        notfirst = (isinstance(v, int) and not isinstance(v, bool) and v != 0) or (
            isinstance(idx, ast.Call) and isinstance(idx.func, ast.Attribute) and idx.func.attr == 'index')
        ctx.tri(first, notfirst, 'ORDER', 'with ocr_scrub the OCR scrubber runs before every other scrubber',
                detail_bad=f"`{norm(ins[0])}` puts the OCR scrubber after the plain Twp/Rge pattern: 'TIS4N-R97W' is "
                           f"first read as 'T..4N' by the loose township word and the look-alike digits are lost",
                key="ORDER|plss_preprocess|ocr-first", where=common.loc(fpp, ins[0]))
    else:
        good = '(OCR_SCRUBBER,) + ' in txt_pp or '[OCR_SCRUBBER] + ' in txt_pp or '(OCR_SCRUBBER, *' in txt_pp or '[OCR_SCRUBBER, *' in txt_pp
        bad = ' + (OCR_SCRUBBER,)' in txt_pp or ' + [OCR_SCRUBBER]' in txt_pp or '.append(OCR_SCRUBBER)' in txt_pp
        ctx.tri(good, bad, 'ORDER', 'with ocr_scrub the OCR scrubber runs before every other scrubber',
                detail_bad="the OCR scrubber is appended after the other scrubbers", key="ORDER|plss_preprocess|ocr-first")
    # every scrubber is applied: loop over the table calling sub_scrubber
    fi = ctx.repo.func('plss_preprocess:plss_preprocess')
    loops = [n for n in walk_local(fi.node) if isinstance(n, ast.For)
             and any(isinstance(c, ast.Call) and (dotted(c.func) or '').endswith('sub_scrubber')
                     for c in ast.walk(n))]
    ctx.shape(bool(loops), 'TBL', 'plss_preprocess applies sub_scrubber for each scrubber regex')
    # sub_scrubber only treats the OCR regex with ocr_scrub
    fs = ctx.repo.func('plss_preprocess:sub_scrubber')
    cmp_ok = any(isinstance(n, ast.Compare) and any(
        isinstance(x, ast.Name) and x.id in ('pp_twprge_ocr_scrub', 'OCR_SCRUBBER')
        for x in ast.walk(n)) for n in walk_local(fs.node))
    ctx.shape(cmp_ok, 'TBL', 'sub_scrubber: ocr_scrub only for the OCR regex')


def _final_use(fi, name):
    """The Name load of ``name`` inside the returned expression."""
    for n in walk_local(fi.node):
        if isinstance(n, ast.Return) and n.value is not None:
            for x in ast.walk(n.value):
                if isinstance(x, ast.Name) and x.id == name:
                    return x
    return None


def _unpack_defuse(ctx):
    fi = ctx.repo.func('unpackers:unpack_twprge')
    rets = [n for n in walk_local(fi.node) if isinstance(n, ast.Return)]
    if len(rets) != 1 or not isinstance(rets[0].value, ast.JoinedStr):
        raise AnalysisError("unpack_twprge: expected a single f-string return")
    parts = [v.value for v in rets[0].value.values if isinstance(v, ast.FormattedValue)]
    if len(parts) != 4 or not all(isinstance(p, ast.Name) for p in parts):
        raise AnalysisError("unpack_twprge: return f-string is not {twp}{ns}-R{rge}{ew}")
    consts = [v.value for v in rets[0].value.values if isinstance(v, ast.Constant)]
    ctx.check(consts[:1] == ['T'] and '-R' in consts, 'DEFUSE',
              "unpack_twprge returns 'T{twp}{ns}-R{rge}{ew}'",
              detail_bad=f"canonical template changed: {norm(rets[0].value)}",
              key="DEFUSE|unpack_twprge|template")
    twp_n, ns_n, rge_n, ew_n = parts
    want = {
        'ns': (ns_n, ["groups['ns']"], 'default_ns'),
        'ew': (ew_n, ["groups['ew']"], 'default_ew'),
    }
    for label, (use, subs, dflt) in want.items():
        prov = flow.provenance(fi.node, use)
        subs_seen = {p[1] for p in prov if p[0] == 'sub'}
        from_group = any(s.replace('"', "'") in {x.replace('"', "'") for x in subs_seen} for s in subs)
        ctx.check(from_group, 'DEFUSE', f"unpack_twprge: explicit {label} reaches the output",
                  f"the returned {label} derives from groups[{label!r}]",
                  f"the {label} letter in the returned Twp/Rge no longer derives from the "
                  f"matched group {subs[0]} (an explicit direction is overridden)",
                  key=f"DEFUSE|unpack_twprge|{label}|group")
        ctx.check(('param', dflt) in prov or any(p[0] == 'attr' and p[1].endswith(dflt) for p in prov),
                  'DEFUSE', f"unpack_twprge: missing {label} filled from {dflt}",
                  detail_bad=f"the default {dflt} no longer reaches the output when the group is absent",
                  key=f"DEFUSE|unpack_twprge|{label}|default")
        # the group-derived definition is guarded by `is not None`
        guarded = False
        for n in walk_local(fi.node):
            if isinstance(n, ast.Assign) and any(isinstance(t, ast.Name) and t.id == use.id for t in n.targets):
                if any(isinstance(x, ast.Subscript) and norm(x).replace('"', "'") in subs for x in ast.walk(n.value)):
                    for test, pol in guards(n):
                        if pol and 'is not None' in norm(test) and subs[0] in norm(test).replace('"', "'"):
                            guarded = True
        ctx.shape(guarded, 'DEFUSE', f"unpack_twprge: {label} taken from the group only when it matched")
    # numbers: through int() (leading zeros), rge falls back to the edge-case group
    for label, use, subs in (('twp_num', twp_n, ["groups['twpnum']"]),
                             ('rge_num', rge_n, ["groups['rgenum']", "groups['rgenum_edgecase_rge2']"])):
        prov = flow.provenance(fi.node, use)
        calls = flow.prov_calls(prov)
        subs_seen = {p[1].replace('"', "'") for p in prov if p[0] == 'sub'}
        ctx.check('int' in calls, 'DEFUSE', f"unpack_twprge: {label} normalised through int()",
                  detail_bad=f"{label} no longer passes through int() (leading zeros kept)",
                  key=f"DEFUSE|unpack_twprge|{label}|int")
        for s in subs:
            ctx.check(s in subs_seen, 'DEFUSE', f"unpack_twprge: {label} derives from {s}",
                      detail_bad=f"{label} no longer derives from {s}",
                      key=f"DEFUSE|unpack_twprge|{label}|{s}")
    # defaults validated
    for exc, legal in (('DefaultNSError', '_LEGAL_NS'), ('DefaultEWError', '_LEGAL_EW')):
        ok = False
        for n in walk_local(fi.node):
            if isinstance(n, ast.Raise) and exc in norm(n):
                if any(legal in norm(t) and 'not in' in norm(t) and pol for t, pol in guards(n)):
                    ok = True
        ctx.shape(ok, 'DEFUSE', f"unpack_twprge raises {exc} for an illegal default")


def _ocr_table(ctx):
    fi = ctx.repo.func('unpackers:ocr_scrub_alpha_to_num')
    table = common.char_table(ctx, fi)      # chained .replace() calls or a str.maketrans table
    ctx.floor('ocr replacement entries', len(table), 3)
    need = {'S': '5', 'O': '0', 'I': '1', 'l': '1'}
    for k, v in need.items():
        ctx.check(table.get(k) == v, 'TBL', f"ocr_scrub_alpha_to_num: {k!r} -> {v!r}",
                  detail_bad=f"look-alike {k!r} is mapped to {table.get(k)!r}",
                  key=f"TBL|ocr_scrub_alpha_to_num|{k}")
    # every letter admitted by the OCR regex's number class has a replacement
    ocr = ctx.fold.get('rgxlib.twprge', 'pp_twprge_ocr_scrub')
    gf = common.group_facts(ctx, ocr)
    for grp in ('twpnum', 'rgenum'):
        if grp not in gf:
            raise AnalysisError(f"pp_twprge_ocr_scrub lacks group {grp}")
        letters = set()
        import re._constants as C

        def collect(sub):
            for op, av in sub:
                if op is C.IN:
                    for o, a in av:
                        if o is C.LITERAL and chr(a).isalpha():
                            letters.add(chr(a))
                elif op is C.LITERAL and chr(av).isalpha():
                    letters.add(chr(av))
                elif op is C.SUBPATTERN:
                    collect(av[3])
                elif op is C.BRANCH:
                    for x in av[1]:
                        collect(x)
                elif op in (C.MAX_REPEAT, C.MIN_REPEAT):
                    collect(av[2])
        collect(gf[grp].node)
        missing = sorted(l for l in letters if l not in table and l.upper() not in table and l.lower() not in table)
        ctx.check(not missing, 'TBL', f"OCR letters of group {grp} all have a digit replacement",
                  detail_bad=f"letters {missing} are admitted in {grp} but never converted to digits",
                  key=f"TBL|ocr|{grp}")
    # unpack_twprge applies the table to both numbers under ocr_scrub
    fu = ctx.repo.func('unpackers:unpack_twprge')
    calls = [c for c in walk_local(fu.node) if isinstance(c, ast.Call)
             and (dotted(c.func) or '') == 'ocr_scrub_alpha_to_num']
    guarded = [c for c in calls if any(pol and norm(t) == 'ocr_scrub' for t, pol in guards(c))]
    ctx.shape(len(guarded) >= 2, 'TBL', 'unpack_twprge scrubs both numbers under ocr_scrub')


def _fixed_twprge(ctx):
    # PLSSParser.__init__: flag iff preprocessor.fixed_twprges
    fi = ctx.repo.func('PLSSParser.__init__')
    ok = False
    for n in walk_local(fi.node):
        if isinstance(n, ast.If) and 'fixed_twprges' in norm(n.test) and 'not' not in norm(n.test):
            body = ' '.join(norm(s) for s in n.body)
            if 'fixed_twprge<' in body and 'w_flags.append' in body:
                ok = True
    ctx.shape(ok, 'WARN', 'PLSSParser raises fixed_twprge iff Twp/Rges were filled in')
    # plss_preprocess: fixed list = multiset difference (post - pre)
    fp = ctx.repo.func('plss_preprocess:plss_preprocess')
    good = bad = None
    for n in walk_local(fp.node):
        if isinstance(n, ast.For):
            for m in ast.walk(n):
                if isinstance(m, ast.Call) and isinstance(m.func, ast.Attribute) and m.func.attr == 'remove':
                    good = n
        if isinstance(n, (ast.ListComp, ast.GeneratorExp)):
            if any(isinstance(i, ast.Compare) and isinstance(i.ops[0], ast.NotIn) for g2 in n.generators for i in g2.ifs):
                bad = n
        if isinstance(n, ast.BinOp) and isinstance(n.op, ast.Sub) and 'set(' in norm(n):
            bad = n
        # the same membership filter written as a loop: `for t in processed: if t not in orig: out.append(t)`
        if isinstance(n, ast.For) and isinstance(n.target, ast.Name) and not any(
                isinstance(m, ast.Call) and isinstance(m.func, ast.Attribute) and m.func.attr == 'remove' for m in ast.walk(n)):
            for i_ in ast.walk(n):
                if isinstance(i_, ast.If) and any(
                        isinstance(t, ast.Compare) and len(t.ops) == 1 and isinstance(t.ops[0], ast.NotIn)
                        and isinstance(t.left, ast.Name) and t.left.id == n.target.id and 'twprge' in norm(t.comparators[0]).lower()
                        and 'orig' in norm(t.comparators[0]).lower() for t in ast.walk(i_.test)) \
                        and any(isinstance(m, ast.Call) and isinstance(m.func, ast.Attribute) and m.func.attr == 'append' for m in ast.walk(i_)):
                    bad = i_
        # positional difference: processed[len(orig):] assumes the completed
        # Twp/Rges come after all the complete ones
        if isinstance(n, ast.Subscript) and isinstance(n.slice, ast.Slice) and n.slice.lower is not None \
                and isinstance(n.slice.lower, ast.Call) and dotted(n.slice.lower.func) == 'len' \
                and 'twprge' in norm(n.value).lower():
            bad = n
    if bad is not None and good is None:
        ctx.violation('WARN', 'plss_preprocess: fixed Twp/Rges',
                      f"`{norm(bad)[:120]}` is not a multiset difference of the Twp/Rges found after and before "
                      f"preprocessing (set difference / positional slice): the fixed_twprge warning names the wrong Twp/Rge or "
                      f"none when a completed Twp/Rge precedes or equals a fully written one",
                      key="WARN|plss_preprocess|setdiff", where=common.loc(fp, bad))
    elif good is not None:
        ctx.ok('WARN', 'plss_preprocess: fixed Twp/Rges', 'one occurrence removed per original Twp/Rge (multiset difference)')
    else:
        ctx.undecided('WARN', 'plss_preprocess: fixed Twp/Rges', 'computation not recognised')
    # the "before" list holds what the complete-Twp/Rge pattern finds in the text as given - nothing
    # that a scrubber pattern (which COMPLETES missing directions) produces is added to it
    before_names = {norm(a.targets[0]) for a in walk_local(fp.node) if isinstance(a, ast.Assign) and isinstance(a.value, ast.Call)
                    and dotted(a.value.func) == 'find_twprge' and isinstance(a.targets[0], ast.Name) and 'orig' in a.targets[0].id}
    for c in walk_local(fp.node):
        tgt = None
        if isinstance(c, ast.Call) and isinstance(c.func, ast.Attribute) and c.func.attr in ('extend', 'append', 'insert') \
                and norm(c.func.value) in before_names:
            tgt = norm(c.func.value)
        elif isinstance(c, ast.AugAssign) and norm(c.target) in before_names:
            tgt = norm(c.target)
        if tgt:
            ctx.violation('WARN', 'plss_preprocess: the list of Twp/Rges present before scrubbing is not padded',
                          f"`{norm(c)[:80]}` adds entries to `{tgt}`: every Twp/Rge in that list cancels one found after scrubbing, so a "
                          f"Twp/Rge whose direction WAS filled in from the default is no longer reported whenever the added "
                          f"pattern also reads it (or a fully written twin of it) - the fixed_twprge warning is lost",
                          key="WARN|plss_preprocess|orig-padded", where=common.loc(fp, c))
    # both find_twprge probes are there (before and after scrubbing)
    probes = [c for c in walk_local(fp.node) if isinstance(c, ast.Call) and (dotted(c.func) or '') == 'find_twprge']
    ctx.shape(len(probes) >= 2, 'WARN', 'plss_preprocess probes Twp/Rges before and after scrubbing')


SUPPRESSED_IMPORT_TIME_DEFAULTS = {
    # signature -> reason (each call site is checked below)
    'PLSSParser.__init__': "all call sites pass default_ns/default_ew explicitly",
    'PLSSPreprocessor.__init__': "call sites pass them explicitly, except PLSSDesc.deduce_layout "
                                 "(layout deduction depends on match positions only)",
}


def calltime_defaults(ctx, rule='GLOBALS'):
    """No default_ns/default_ew parameter binds MasterConfig at import time
    (shared with C15)."""
    n = 0
    for fi in ctx.repo.funcs.values():
        if fi.module.name.startswith('pytrs.interface_tools'):
            continue
        for p, d in fi.param_defaults().items():
            if d is None:
                continue
            txt = norm(d)
            if 'MasterConfig.' in txt or txt.startswith('MC.'):
                n += 1
                if fi.qualname in SUPPRESSED_IMPORT_TIME_DEFAULTS:
                    _callsites_pass(ctx, fi, p, rule)
                else:
                    ctx.violation(rule, f"{fi.qualname}({p}=...)",
                                  f"parameter default `{txt}` is evaluated once at import: later "
                                  f"changes of MasterConfig are ignored on this route",
                                  key=f"{rule}|{fi.qualname}|{p}|import-time", where=fi.loc)
    # no object captures the master default when it is created: an attribute
    # bound from MasterConfig in __init__ is frozen for the object's lifetime
    for fi in ctx.repo.funcs.values():
        if fi.node.name != '__init__' or fi.module.name.startswith('pytrs.interface_tools'):
            continue
        for st in walk_local(fi.node):
            if isinstance(st, ast.Assign) and any(isinstance(t_, ast.Attribute) and norm(t_.value) == 'self'
                                                   and t_.attr in ('default_ns', 'default_ew') for t_ in st.targets) \
                    and any(isinstance(x, ast.Attribute) and norm(x) in ('MasterConfig.default_ns', 'MasterConfig.default_ew',
                                                                         'MC.default_ns', 'MC.default_ew')
                            for x in ast.walk(st.value)):
                ctx.violation(rule, f"{fi.qualname}: the object does not capture MasterConfig's default at creation",
                              f"`{norm(st)}` copies the master default into the object when it is created: an object made "
                              f"before MasterConfig is changed (or with wait_to_parse) keeps parsing with the old direction",
                              key=f"{rule}|{fi.qualname}|captured-at-init", where=common.loc(fi, st))
    for spec in ('unpackers:unpack_twprge', 'plss_preprocess:plss_preprocess', 'TRS.construct_trs'):
        fi = ctx.repo.func(spec)
        for p in ('default_ns', 'default_ew'):
            # some assignment inside the body takes p from MasterConfig.<p>
            ok = any(isinstance(st, ast.Assign) and norm(st.targets[0]) == p and norm(st.value) in (f"MasterConfig.{p}", f"MC.{p}")
                     for st in walk_local(fi.node))
            ok = ok or any(isinstance(st, ast.Assign) and norm(st.targets[0]) == p and (f"MasterConfig.{p}" in norm(st.value) or f"MC.{p}" in norm(st.value))
                           for st in walk_local(fi.node))
            fallbacks = [st for st in walk_local(fi.node) if isinstance(st, ast.Assign) and norm(st.targets[0]) == p
                         and ((f"{p} is None", True) in [(t, pol) for _e, t, pol in literals(guards(st))]
                              or (p, False) in [(t, pol) for _e, t, pol in literals(guards(st))])]
            frozen = [st for st in fallbacks
                      if not ({f"MasterConfig.{p}", f"MC.{p}"} & flow.prov_attrs(flow.provenance(fi.node, st.value)))]
            ctx.tri(ok and not frozen, bool(frozen), rule, f"{fi.qualname}: {p} resolved from MasterConfig inside the call",
                    detail_bad=f"`{norm(frozen[0]) if frozen else ''}`: an omitted {p} no longer falls back to MasterConfig.{p} "
                               f"but to a fixed value: after MasterConfig is reconfigured this route keeps the old direction "
                               f"while the description parser follows the new one",
                    key=f"{rule}|{fi.qualname}|{p}|frozen-fallback", where=common.loc(fi, frozen[0]) if frozen else None,
                    why="no body assignment from MasterConfig recognised")


def _callsites_pass(ctx, fi, p, rule):
    cls = fi.qualname.split('.')[0]
    params = fi.params()
    idx = params.index(p) - 1      # minus self
    for f2 in ctx.repo.funcs.values():
        for c in walk_local(f2.node):
            if isinstance(c, ast.Call) and (dotted(c.func) or '').split('.')[-1] == cls:
                passed = len(c.args) > idx or any(k.arg == p for k in c.keywords)
                site = f"{f2.qualname} -> {cls}(...)"
                stars = [k.value for k in c.keywords if k.arg is None]
                if not passed and stars:
                    # **d passes p only if d always has the key: a dict that is rebuilt through a filter
                    # (`{k: v for k, v in d.items() if v is not None}`) may lack it
                    filtered = None
                    for sv in stars:
                        if isinstance(sv, ast.Name):
                            for a_ in walk_local(f2.node):
                                if isinstance(a_, ast.Assign) and norm(a_.targets[0]) == sv.id and isinstance(a_.value, ast.DictComp) \
                                        and a_.value.generators and a_.value.generators[0].ifs:
                                    filtered = a_
                    if filtered is not None:
                        ctx.violation(rule, f"{site} omits {p}",
                                      f"`{norm(filtered)[:70]}` drops unset entries before `{cls}(**{norm(stars[0])})`: when {p} is not set, "
                                      f"{cls} falls back to its parameter default, which was bound to MasterConfig.{p} ONCE at import - "
                                      f"later changes of MasterConfig are ignored on this route (and .preprocess() disagrees with .parse())",
                                      key=f"{rule}|{f2.qualname}|{cls}|{p}", where=common.loc(f2, c))
                        continue
                    passed = True
                if passed:
                    ctx.ok(rule, f"{site} passes {p}")
                elif f2.qualname == 'PLSSDesc.deduce_layout':
                    ctx.ok(rule, f"{site} omits {p}", 'suppressed: layout deduction uses match positions only')
                else:
                    ctx.violation(rule, f"{site} omits {p}",
                                  f"falls back to the import-time value of MasterConfig.{p}",
                                  key=f"{rule}|{f2.qualname}|{cls}|{p}", where=common.loc(f2, c))


def _calltime_defaults(ctx):
    ctx.attempt(calltime_defaults)
    from .c13 import precedence
    for spec in ('PLSSDesc.parse', 'PLSSDesc.preprocess', 'Tract.set_twprgesec', 'PLSSPreprocessor.preprocess'):
        precedence(ctx, ctx.repo.func(spec), ('default_ns', 'default_ew'))


def _number_witnesses(ctx, twprge):
    """Language inclusion treats look-arounds of the repo pattern as always
    true (an over-approximation), so a look-ahead that REJECTS numbers
    (a negative look-ahead in front of the digits) is invisible to it.  The exact matcher is therefore asked
    directly: every township / range number shape - each leading digit, one to
    three digits - in the plain and the 'T..-R..' spellings."""
    L = common.lang(ctx, twprge)
    bad = []
    n = 0
    nums = [str(d) for d in range(1, 10)] + [f"{d}0" for d in range(1, 10)] + [f"{d}07" for d in range(1, 10)] + ['20', '25', '29', '200', '299']
    for num in dict.fromkeys(nums):
        for s_ in (f"T154N-R{num}W", f"T{num}N-R97W", f"154N-{num}W" if len(num) > 1 or num != '2' else "154N-R2W", f"{num}N-97W"):
            n += 1
            if not L.fullmatch(s_):
                bad.append(s_)
    ctx.check(not bad, 'RX-LANG', 'twprge_regex matches every shape of township / range number (exact matcher)',
              f"{n} witnesses", f"not matched: {bad[:6]} ({len(bad)} of {n}): descriptions with such a township / range get an error "
                                f"Twp/Rge although they are written in a documented spelling",
              key=f"RX-LANG|twprge_regex|number-witnesses|{','.join(bad[:3])}")
