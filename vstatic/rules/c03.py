"""
C03 -- parsing is total: any text, any valid configuration, never an
exception.
"""

import ast

from .. import AnalysisError, flow, rx
from ..fold import is_unknown, RegexVal
from ..srcmodel import walk_local, norm, dotted, guards, enclosing_stmt, parent, facts_at, literals
from . import common

META = {
    'explanation': (
        "'No exception for any string' as a whole is not provable here. "
        "Decided: exception freedom for the construct kinds this code base "
        "fails by, over the parser package: (1) attributes that start as None "
        "are never put into a list / joined / iterated without a None-"
        "excluding guard where a sibling site has one; (2) list.remove(x) is "
        "membership-guarded or inside try; (3) every named match-group "
        "subscript names a group of the regex that produced the match; "
        "(4) int() takes digit-only groups or sits in try/except ValueError; "
        "(5) every raise reachable in the parser is an argument check with a "
        "documented exception type; (6) at least one tract: every path of "
        "parse_chunk ends in the copy_all fallback test or in _parse_copyall, "
        "the chunker produces at least one block (its helpers run only on a "
        "non-empty match list), config keyword dicts name real parameters."
        ' Also: definite assignment of every local in the parser package (one accepted loop-witness idiom), staged optional components are only formatted, raise sites are conditional (guards incl. early-exit clauses).'
        " Round 7: TABLE[key] with a key computed from a regex group finds a key for every enumerated member of the group's language; every consumed section/lot reference registers a number (callers index [0]); decompiled config text consists of typed settings only; re-raising the same exception type is not a new exception."
        ' Round 8: no ordering / arithmetic on the optional numbers (twp_num / rge_num / sec_num) without a None test; reduce() / max() / min() not on a possibly empty sequence; every OCR look-alike the pattern captures is converted before an unguarded int().'
        ' Round 9: a recursive call changes something; float() on an acreage is guarded (the pattern accepts empty brackets); a result list filtered after the scan cannot come back empty to an unguarded [0].'
        ' Round 10: int() under an `.isdecimal()` test counts as guarded; config value validation is followed into the helper the value is handed to.'
        ' Round 11: an undocumented exception type behind a condition is undecided (reachability of an invariant check is not decided), unconditional ones are violations; segment() is followed with an empty match list for every layout.'
        ' Round 12: no name is read that is bound nowhere (NameError); a ChunkParser attribute that may still be None is not handed to a function that dereferences it; a read under a correlated flag counts as assigned.'),
    'assumptions': [
        "methods of str/list/dict on well-typed receivers do not raise; re does not raise on valid patterns; recursion depth",
    ],
    'families': ['EXC', 'SINK', 'RX-GROUPS', 'TBL'],
}

DOCUMENTED = {'TypeError', 'ValueError', 'ConfigError', 'DefaultNSError', 'DefaultEWError'}


def check(ctx):
    ctx.consult('plssdesc/plss_parse.py', 'plssdesc/plssdesc.py', 'plssdesc/plss_preprocess.py', 'tract/tract.py',
                'tract/tract_parse.py', 'tract/tract_preprocess.py', 'unpack/unpackers.py', 'config/config.py')
    ctx.attempt(_optional_attrs)
    ctx.attempt(_remove_guard)
    ctx.attempt(_group_subscripts)
    ctx.attempt(_int_sites)
    ctx.attempt(_raises)
    ctx.attempt(_at_least_one_tract)
    ctx.attempt(_kwargs)
    ctx.attempt(_str_lists)
    ctx.attempt(_unbound_locals)
    ctx.attempt(_optional_attrs_handed_to_derefs)
    from .forward import undefined_names as _undefined_names
    ctx.attempt(_undefined_names, [f for f in ctx.repo.funcs.values() if not f.module.name.startswith("pytrs.interface_tools")])
    ctx.attempt(_staged_optionals)
    ctx.attempt(_precondition_lengths)
    ctx.attempt(_divisions)
    from .c13 import config_separators       # a valid configuration is never rejected
    ctx.attempt(config_separators, rule='EXC')
    ctx.attempt(common.total_lookups, _parser_funcs(ctx))
    ctx.attempt(common.optional_number_ordering, _parser_funcs(ctx))
    ctx.attempt(common.empty_reductions, _parser_funcs(ctx))
    ctx.attempt(common.recursion_makes_progress, _parser_funcs(ctx))
    ctx.attempt(common.float_of_matched_text, _parser_funcs(ctx))
    from .c05 import every_match_registers
    ctx.attempt(every_match_registers)
    from .c13 import decompiled_text_is_typed
    ctx.attempt(decompiled_text_is_typed, rule='EXC')
    n = common.discarded_results(ctx, _parser_funcs(ctx))
    if n == 0:
        ctx.ok('DISCARD', 'no validated / converted value is computed and dropped (bare-statement calls to pure functions)')
    ctx.attempt(common.match_record_roles)


def _loop_witness(fi, use, cfg_node):
    """The read of a loop-assigned variable after its loop is safe when it is
    guarded by the truthiness of a container attribute that is only ever
    filled from inside that loop's body (so a non-empty container proves the
    body - and the assignment - ran).  Returns the witness text or None."""
    name = use.id
    defs = [n for n in ast.walk(fi.node) if isinstance(n, ast.Name) and isinstance(n.ctx, ast.Store) and n.id == name]
    loops = set()
    for d in defs:
        p = d
        while p is not None and not isinstance(p, (ast.For, ast.While)):
            p = getattr(p, '_parent', None)
            if p is fi.node:
                p = None
        if p is None:
            return None
        loops.add(p)
    if len(loops) != 1:
        return None
    loop = loops.pop()
    if any(use is x for x in ast.walk(loop)):
        return None
    body_ids = {id(x) for st in loop.body for x in ast.walk(st)}
    # the assignment runs on every pass: it is a top-level statement of the loop body
    top_defs = [i for i, st in enumerate(loop.body)
                if isinstance(st, (ast.Assign, ast.AnnAssign, ast.AugAssign)) and any(d is x for d in defs for x in ast.walk(st))]
    if not top_defs:
        return None
    first_def = min(top_defs)
    # helpers defined in the function and called only inside the loop body
    inner = {}
    for n in ast.walk(fi.node):
        if isinstance(n, ast.FunctionDef) and n is not fi.node:
            calls = [c for c in ast.walk(fi.node) if isinstance(c, ast.Call) and isinstance(c.func, ast.Name)
                     and c.func.id == n.name]
            inner[n.name] = (n, bool(calls) and all(id(c) in body_ids for c in calls))
    for _e, txt, pol in facts_at(use):
        if not pol or not txt.startswith('self.') or not txt[5:].isidentifier():
            continue
        ok = True
        found = False
        for n in ast.walk(fi.node):
            hit = None
            if isinstance(n, ast.Call) and isinstance(n.func, ast.Attribute) and norm(n.func.value) == txt \
                    and n.func.attr in ('append', 'extend', 'insert', 'add', 'update'):
                hit = n
            elif isinstance(n, ast.Attribute) and isinstance(n.ctx, ast.Store) and norm(n) == txt:
                # a rebinding to an empty container is harmless; anything else is a fill
                par = n._parent
                if isinstance(par, ast.Assign) and isinstance(par.value, (ast.List, ast.Dict, ast.Tuple)) \
                        and not getattr(par.value, 'elts', getattr(par.value, 'keys', [])):
                    continue
                hit = n
            if hit is None:
                continue
            found = True
            if id(hit) in body_ids:
                # the fill must come after the assignment within the pass
                pos = next((i for i, st in enumerate(loop.body) if any(hit is x for x in ast.walk(st))), None)
                if pos is not None and pos < first_def:
                    ok = False
                continue
            holder = hit
            while holder is not None and not isinstance(holder, ast.FunctionDef):
                holder = holder._parent
            if holder is not None and holder is not fi.node and inner.get(holder.name, (None, False))[1]:
                continue
            ok = False
        if ok and found:
            return txt
    return None


def _correlated_flag(fi, use):
    """`ok = False` ... `if cond: x = ...; ok = <expr>` ... `if ok: use(x)`: the read of x is reached only
    when the flag was set in the very block that assigned x.  Returns the flag's name, or None."""
    from ..srcmodel import literals as _lits
    for e_, txt, pol in _lits(guards(use)):
        if not (pol and isinstance(e_, ast.Name)):
            continue
        flag = e_.id
        sets = [a for a in walk_local(fi.node) if isinstance(a, ast.Assign) and any(
            isinstance(t, ast.Name) and t.id == flag for t in a.targets)]
        if not sets:
            continue
        live = [a for a in sets if not (isinstance(a.value, ast.Constant) and not a.value.value)]
        if not live:
            continue
        ok = True
        for a in live:
            blk, idx = None, None
            par = getattr(a, '_parent', None)
            for field in ('body', 'orelse', 'finalbody'):
                lst = getattr(par, field, None)
                if isinstance(lst, list) and a in lst:
                    blk, idx = lst, lst.index(a)
            if blk is None or isinstance(par, (ast.FunctionDef, ast.AsyncFunctionDef)):
                ok = False
                break
            assigned_before = any(isinstance(x, ast.Name) and isinstance(x.ctx, ast.Store) and x.id == use.id
                                  for st in blk[:idx] for x in ast.walk(st))
            if not assigned_before:
                ok = False
                break
        if ok:
            return flag
    return None


def _unbound_locals(ctx):
    """definite assignment: no read of a local that a path reaches unassigned."""
    n_f = n_u = 0
    for fi in _parser_funcs(ctx):
        try:
            found = flow.possibly_undefined(fi.node)
        except AnalysisError as e:
            ctx.undecided('DEFUSE', f"{fi.qualname}: definite assignment", str(e))
            continue
        n_f += 1
        seen = set()
        for use, node in found:
            if use.id in seen:
                continue
            seen.add(use.id)
            n_u += 1
            w = _loop_witness(fi, use, node)
            construct = f"{fi.qualname}: `{use.id}` is assigned on every path to its use"
            if w:
                ctx.ok('DEFUSE', construct, f"read only under `if {w}`, a container filled only inside the loop that "
                                            f"assigns `{use.id}` (non-empty => the loop body ran)")
                ctx.assume(f"{w} is empty when {fi.qualname} starts scanning (set to [] by __init__, second pass only when empty)")
                continue
            fl = _correlated_flag(fi, use)
            if fl:
                ctx.ok('DEFUSE', construct, f"read only under `if {fl}`, a flag that is set (to something that can be true) only "
                                            f"in the block that also assigns `{use.id}`")
                continue
            ctx.violation('DEFUSE', construct,
                          f"`{use.id}` (line {use.lineno}) is read although a path from the start of {fi.qualname} reaches "
                          f"it without any assignment (its assignments sit in a loop / branch that may not run): "
                          f"UnboundLocalError on that path",
                          key=f"DEFUSE|{fi.qualname}|unbound|{use.id}", where=common.loc(fi, use))
    ctx.floor('functions analysed for definite assignment', n_f, 100)
    if n_u == 0:
        ctx.ok('DEFUSE', 'every local read is definitely assigned', f"{n_f} functions")


def _staged_optionals(ctx):
    """Components staged by ChunkParser._stage_new_tract may still be None
    (working_twprge / working_sec start as None): PLSSParser.construct_tracts
    may only *format* such a component (f-string / str()), never add to it,
    call a method on it or index it."""
    st = ctx.repo.func('ChunkParser._stage_new_tract')
    dicts = [n for n in walk_local(st.node) if isinstance(n, ast.Dict)]
    if len(dicts) != 1:
        ctx.undecided('EXC', 'staged tract components', 'dict literal in _stage_new_tract not recognised')
        return
    key_of_param = {norm(v): k.value for k, v in zip(dicts[0].keys, dicts[0].values)
                    if isinstance(k, ast.Constant) and isinstance(v, ast.Name)}
    pnames = [p for p in st.params() if p != 'self']
    cp = ctx.repo.cls('plss_parse:ChunkParser')
    none_attrs = set()
    for m in cp.methods.values():
        for n in ast.walk(m.node):
            if isinstance(n, ast.Assign) and isinstance(n.value, ast.Constant) and n.value.value is None:
                for t in n.targets:
                    if isinstance(t, ast.Attribute) and norm(t.value) == 'self':
                        none_attrs.add(t.attr)
    nullable = {}
    for fi in ctx.repo.funcs.values():
        if not fi.qualname.startswith('ChunkParser.'):
            continue
        for c in walk_local(fi.node):
            if isinstance(c, ast.Call) and dotted(c.func) == 'self._stage_new_tract':
                for pn, arg in list(zip(pnames, c.args)) + [(k.arg, k.value) for k in c.keywords if k.arg]:
                    if isinstance(arg, ast.Attribute) and norm(arg.value) == 'self' and arg.attr in none_attrs \
                            and pn in key_of_param:
                        nullable[key_of_param[pn]] = f"self.{arg.attr}"
    ct = ctx.repo.func('PLSSParser.construct_tracts')
    # expressions that denote a nullable component: tract_data['k'] and local aliases of it
    loopvars = {norm(n.target) for n in walk_local(ct.node) if isinstance(n, ast.For)
                and 'tract_components' in norm(n.iter)}
    def is_comp(e, key):
        return isinstance(e, ast.Subscript) and norm(e.value) in loopvars and isinstance(e.slice, ast.Constant) \
            and e.slice.value == key
    n_uses = 0
    for key, src in sorted(nullable.items()):
        aliases = {norm(a.targets[0]) for a in walk_local(ct.node) if isinstance(a, ast.Assign)
                   and len(a.targets) == 1 and isinstance(a.targets[0], ast.Name) and is_comp(a.value, key)}
        for n in walk_local(ct.node):
            if not (is_comp(n, key) or (isinstance(n, ast.Name) and isinstance(n.ctx, ast.Load) and n.id in aliases)):
                continue
            par = n._parent
            if isinstance(par, ast.Assign) and par.value is n:
                continue            # the alias definition itself
            n_uses += 1
            construct = f"construct_tracts: staged '{key}' (may be None, from {src}) is only formatted"
            where = common.loc(ct, n)
            if isinstance(par, ast.FormattedValue) or (isinstance(par, ast.Call) and dotted(par.func) in ('str', 'repr', 'format')):
                ctx.ok('EXC', construct, f"`{norm(par)[:50]}`")
            elif isinstance(par, ast.BinOp) or (isinstance(par, ast.Attribute) and isinstance(par._parent, ast.Call)
                                                and par._parent.func is par) \
                    or (isinstance(par, ast.Subscript) and par.value is n):
                # a None test that dominates the use makes it safe
                facts = [(t, pol) for _e, t, pol in facts_at(n)]
                me = norm(n)
                if (f"{me} is None", False) in facts or (me, True) in facts:
                    ctx.ok('EXC', construct, 'guarded by a None test')
                    continue
                ctx.violation('EXC', construct,
                              f"`{norm(enclosing_stmt(n))[:70]}` applies an operator / method to the staged '{key}', which is "
                              f"None when no Twp/Rge (section) had been found before the block (e.g. a dictated "
                              f"Twp/Rge-first layout on text that starts with a section): TypeError",
                              key=f"EXC|construct_tracts|optional|{key}", where=where)
            elif isinstance(par, ast.For) and par.iter is n:
                ctx.undecided('EXC', construct, f"iterated (`for ... in {norm(n)}`); whether None can reach it is not decided")
            else:
                ctx.undecided('EXC', construct, f"used in `{norm(par)[:50]}`")
    if not nullable:
        ctx.undecided('EXC', 'staged tract components', 'no None-initialised attribute is staged')


def _precondition_lengths(ctx):
    """A guard clause that checks the length of a sequence (`if len(x) ...:
    return`) and is followed by x[0] / x[-1] must actually exclude the empty
    sequence: `if len(x) > 1: return` lets len 0 through to x[0]
    (IndexError)."""
    import re as _re
    from ..srcmodel import _always_exits
    n = 0
    for fi in _parser_funcs(ctx):
        for x in walk_local(fi.node):
            if not (isinstance(x, ast.Subscript) and isinstance(x.ctx, ast.Load) and isinstance(x.slice, ast.Constant)
                    and x.slice.value in (0, -1) and isinstance(x.value, (ast.Name, ast.Attribute))):
                continue
            base = norm(x.value)
            st = enclosing_stmt(x)
            blk = None
            for fld in ('body', 'orelse', 'finalbody'):
                b_ = getattr(st._parent, fld, None)
                if isinstance(b_, list) and st in b_:
                    blk = b_
            if blk is None:
                continue
            ok_lengths, clause = set(range(0, 5)), None
            for prev in blk[:blk.index(st)]:
                if isinstance(prev, ast.If) and not prev.orelse and _always_exits(prev.body):
                    for _e, t, pol in literals([(prev.test, False)]):
                        m = _re.match(r"^len\(" + _re.escape(base) + r"\) (==|<|<=|>|>=) (\d+)$", t)
                        if m:
                            op, k = m.group(1), int(m.group(2))
                            f = {'==': lambda v: v == k, '<': lambda v: v < k, '<=': lambda v: v <= k,
                                 '>': lambda v: v > k, '>=': lambda v: v >= k}[op]
                            ok_lengths = {v for v in ok_lengths if f(v) == pol}
                            clause = prev
                        elif t == base:
                            ok_lengths = {v for v in ok_lengths if (v > 0) == pol}
            if clause is None:
                continue
            n += 1
            ctx.check(0 not in ok_lengths, 'EXC', f"{fi.qualname}: the length check before `{norm(x)}` excludes the empty sequence",
                      f"`if {norm(clause.test)}: ...` leaves lengths {sorted(ok_lengths)}",
                      f"`if {norm(clause.test)}: return` is the only length check before `{norm(x)}`, and an empty `{base}` passes "
                      f"it: IndexError when nothing was staged (e.g. sec_within on text whose first pass forms no tract)",
                      key=f"EXC|{fi.qualname}|precondition|{base}", where=common.loc(fi, x))
    if n == 0:
        ctx.ok('EXC', 'no x[0] / x[-1] relies on a length guard clause that admits the empty sequence')


def _divisions(ctx):
    """No division / modulo by a value that can be zero: the parser package
    has none on the pinned tree, so every new one needs a divisor that is a
    non-zero constant or is guarded by a test of the divisor."""
    n = 0
    for fi in _parser_funcs(ctx):
        for x in walk_local(fi.node):
            if not (isinstance(x, ast.BinOp) and isinstance(x.op, (ast.Div, ast.FloorDiv, ast.Mod))):
                continue
            if isinstance(x.op, ast.Mod) and isinstance(x.left, (ast.Constant, ast.JoinedStr)) and \
                    isinstance(getattr(x.left, 'value', None), str):
                continue            # '%s' % value  string formatting
            n += 1
            d = x.right
            if isinstance(d, ast.Constant) and isinstance(d.value, (int, float)) and d.value != 0:
                ctx.ok('EXC', f"{fi.qualname}: `{norm(x)[:40]}` divides by a non-zero constant")
                continue
            dtxt = norm(d)
            inner = norm(d.args[0]) if isinstance(d, ast.Call) and dotted(d.func) == 'abs' and d.args else dtxt
            guarded = any((t in (f"{dtxt} == 0", f"{inner} == 0") and not pol) or (t in (dtxt, inner) and pol)
                          or (' == ' in t and not pol and all(p_ in t for p_ in inner.replace(' ', '').split('-')[:2]))
                          for _e, t, pol in facts_at(x))
            ctx.check(guarded, 'EXC', f"{fi.qualname}: the divisor of `{norm(x)[:50]}` cannot be zero",
                      'guarded by a test of the divisor',
                      f"`{norm(x)[:70]}` divides by `{dtxt}`, which is zero for some input (a range whose two ends are equal, "
                      f"'Lots 3 - 3') and is not tested first: ZeroDivisionError escapes the parser",
                      key=f"EXC|{fi.qualname}|zero-division|{dtxt[:30]}", where=common.loc(fi, x))
    if n == 0:
        ctx.ok('EXC', 'the parser package performs no division / modulo')


def _parser_funcs(ctx):
    return [fi for fi in ctx.repo.funcs.values() if fi.module.name.startswith('pytrs.parser.')]


def _none_excluding(test_txt, attr):
    t = test_txt.replace(' ', '')
    a = f"self.{attr}"
    return (f"{a}notin[None" in t or f"{a}isnotNone" in t or f"{a}notin(None" in t
            or (f"{a}!=None" in t))


def _optional_attrs(ctx):
    ci = ctx.repo.cls('plss_parse:ChunkParser')
    init = ci.methods['__init__']
    optional = [norm(s.targets[0])[5:] for s in walk_local(init.node) if isinstance(s, ast.Assign)
                and norm(s.targets[0]).startswith('self.') and isinstance(s.value, ast.Constant) and s.value.value is None]
    ctx.floor('ChunkParser attributes that start as None', len(optional), 2)
    methods = [f for f in ctx.repo.funcs.values() if f.qualname.startswith('ChunkParser.')]
    for a in optional:
        # does any site test it against None? (the belief that it can be None)
        believes = False
        risky = []
        for m in methods:
            for n in walk_local(m.node):
                if isinstance(n, (ast.If, ast.While, ast.IfExp)) and _none_excluding(norm(n.test), a):
                    believes = True
                if isinstance(n, ast.Call) and isinstance(n.func, ast.Attribute):
                    args = [norm(x) for x in n.args]
                    if f"self.{a}" in args and n.func.attr in ('insert', 'append', 'extend', 'join'):
                        risky.append((m, n, f"{norm(n.func.value)}.{n.func.attr}(... self.{a})"))
                if isinstance(n, ast.For) and norm(n.iter) == f"self.{a}":
                    risky.append((m, n, f"for ... in self.{a}"))
        for m, n, what in risky:
            gs = [norm(t) for t, pol in guards(n) if pol]
            # dominated by an assignment from a non-None source in the same function?
            ok = any(_none_excluding(g, a) for g in gs)
            if not ok:
                # the same facts in canonical form (conditions given a name first, De Morgan)
                for _e, txt, pol in literals(guards(n)):
                    t_ = txt.replace(' ', '')
                    if (t_.startswith(f"self.{a}in[None") or t_.startswith(f"self.{a}in(None") or t_ == f"self.{a}isNone") and not pol:
                        ok = True
            ctx.check(ok or not believes, 'EXC', f"{m.qualname}: {what} excludes None",
                      'guarded' if ok else 'no site believes it can be None',
                      f"`self.{a}` starts as None (and sibling code tests for that), but `{norm(enclosing_stmt(n))[:70]}` "
                      f"uses it under {gs or 'no guard'}: None reaches a join/iteration -> TypeError on text where "
                      f"no such marker is ever staged",
                      key=f"EXC|{m.qualname}|{a}|none", where=common.loc(m, n))
        if not risky:
            ctx.ok('EXC', f"ChunkParser.{a}: never stored into a list / iterated")
    # the lists those values go into are joined: elements must be lists of str
    pc = ctx.repo.func('ChunkParser.parse_chunk')
    t = ' '.join(norm(s) for s in walk_local(pc.node) if isinstance(s, ast.stmt))
    ctx.shape("','.join(seclist)" in t and 'for seclist in self.working_sec_list' in t, 'EXC',
              'parse_chunk joins each unused section list')


def _remove_guard(ctx):
    n = 0
    for fi in _parser_funcs(ctx):
        for c in walk_local(fi.node):
            if isinstance(c, ast.Call) and isinstance(c.func, ast.Attribute) and c.func.attr == 'remove' \
                    and len(c.args) == 1 and not norm(c.func.value).startswith('__all__'):
                n += 1
                lst, x = norm(c.func.value), norm(c.args[0])
                gs = [norm(t).replace(' ', '') for t, pol in guards(c) if pol]
                in_try = False
                p = parent(c)
                while p is not None and not isinstance(p, (ast.FunctionDef, ast.AsyncFunctionDef)):
                    if isinstance(p, ast.Try) and any(
                            h.type is None or 'ValueError' in norm(h.type) or 'Exception' in norm(h.type) for h in p.handlers):
                        in_try = True
                    p = parent(p)
                ok = in_try or any(g == f"{x}in{lst}".replace(' ', '') for g in gs)
                ctx.check(ok, 'EXC', f"{fi.qualname}: {lst}.remove({x}) is guarded",
                          'membership test / try', f"`{norm(c)}` without `if {x} in {lst}`: ValueError when the element is absent",
                          key=f"EXC|{fi.qualname}|remove|{lst}", where=common.loc(fi, c))
    if n == 0:
        ctx.ok('EXC', 'no list.remove() call in the parser package')


def _group_subscripts(ctx):
    inv = common.regex_inventory(ctx)
    allgroups = set()
    byname = {}
    for r in inv:
        if r['rv'] is not None:
            gf = common.group_facts(ctx, r['rv'])
            names = {k for k in gf if isinstance(k, str)}
            allgroups |= names
            byname[r['name']] = names
    # is the inventory complete?  (a pattern built in a way the folder cannot
    # follow makes "no regex defines this group" undecidable)
    incomplete = []
    for mod in ctx.repo.modules.values():
        if '.rgxlib.' not in mod.name and not mod.name.endswith('.trs'):
            continue
        env_ = ctx.fold.module_env(mod.name)
        for st in mod.tree.body:
            if isinstance(st, ast.Assign) and isinstance(st.value, ast.Call) and dotted(st.value.func) == 're.compile' \
                    and isinstance(st.targets[0], ast.Name) and is_unknown(env_.get(st.targets[0].id)):
                incomplete.append(st.targets[0].id)
    incomplete += [r['name'] for r in inv if r['rv'] is None]
    n = 0
    for fi in _parser_funcs(ctx):
        # match variables bound from a known regex
        binding = {}
        for node in walk_local(fi.node):
            src = None
            tgt = None
            if isinstance(node, ast.For) and isinstance(node.target, ast.Name):
                tgt, src = node.target.id, node.iter
            elif isinstance(node, ast.Assign) and isinstance(node.targets[0], ast.Name):
                tgt, src = node.targets[0].id, node.value
            if tgt and isinstance(src, ast.Call) and isinstance(src.func, ast.Attribute) \
                    and src.func.attr in ('search', 'match', 'fullmatch', 'finditer') \
                    and isinstance(src.func.value, ast.Name) and src.func.value.id in byname:
                binding.setdefault(tgt, set()).add(src.func.value.id)
        for node in walk_local(fi.node):
            g = None
            recv = None
            if isinstance(node, ast.Subscript) and isinstance(node.slice, ast.Constant) \
                    and isinstance(node.slice.value, str) and isinstance(node.value, ast.Name) \
                    and (node.value.id.endswith('mo') or node.value.id in ('groups', 'match')):
                g, recv = node.slice.value, node.value.id
            elif isinstance(node, ast.Call) and isinstance(node.func, ast.Attribute) \
                    and node.func.attr in ('group', 'start', 'end') and node.args \
                    and isinstance(node.args[0], ast.Constant) and isinstance(node.args[0].value, str) \
                    and isinstance(node.func.value, ast.Name):
                g, recv = node.args[0].value, node.func.value.id
            if g is None:
                continue
            n += 1
            if recv in binding:
                for rn in binding[recv]:
                    ctx.check(g in byname[rn], 'RX-GROUPS', f"{fi.qualname}: {recv}[{g!r}] is a group of {rn}",
                              detail_bad=f"{rn} has no group {g!r}: IndexError('no such group') whenever this line runs",
                              key=f"RX-GROUPS|{fi.qualname}|{recv}|{g}", where=common.loc(fi, node))
            elif incomplete and g not in allgroups:
                ctx.undecided('RX-GROUPS', f"{fi.qualname}: group {g!r} exists in some regex of the package",
                              f"patterns {incomplete[:4]} do not fold, so the inventory of groups is incomplete")
            else:
                ctx.check(g in allgroups, 'RX-GROUPS', f"{fi.qualname}: group {g!r} exists in some regex of the package",
                          detail_bad=f"no regex defines a group {g!r}", key=f"RX-GROUPS|{fi.qualname}|any|{g}",
                          where=common.loc(fi, node))
    ctx.floor('named group subscripts', n, 18)
    # unpack_twprge is fed by all seven scrubbers: each needs the groups it reads
    need = {'twpnum', 'ns', 'rgenum', 'ew'}
    sc = list(ctx.fold.get('plss_preprocess', 'SCRUBBER_REGEXES')) + [ctx.fold.get('plss_preprocess', 'OCR_SCRUBBER')]
    for rv in sc:
        gf = common.group_facts(ctx, rv)
        miss = need - set(gf)
        ctx.check(not miss, 'RX-GROUPS', f"{rv.name} defines the groups unpack_twprge reads",
                  detail_bad=f"{rv.name} lacks {sorted(miss)}: KeyError in unpack_twprge", key=f"RX-GROUPS|{rv.name}|unpack")
        if 'rgenum' in gf and gf['rgenum'].optional:
            ctx.check('rgenum_edgecase_rge2' in gf, 'RX-GROUPS',
                      f"{rv.name}: optional rgenum is backed by rgenum_edgecase_rge2",
                      detail_bad="rgenum may be None and there is no edge-case group: KeyError",
                      key=f"RX-GROUPS|{rv.name}|edgecase")


def _int_sites(ctx):
    n = 0
    for fi in _parser_funcs(ctx):
        for c in walk_local(fi.node):
            if not (isinstance(c, ast.Call) and dotted(c.func) == 'int' and len(c.args) == 1):
                continue
            n += 1
            arg = c.args[0]
            in_try = False
            p = parent(c)
            while p is not None and not isinstance(p, (ast.FunctionDef, ast.AsyncFunctionDef)):
                if isinstance(p, ast.Try) and any(h.type is None or 'ValueError' in norm(h.type) for h in p.handlers):
                    # only the try body is protected
                    q = c
                    while parent(q) is not p:
                        q = parent(q)
                    if q in p.body:
                        in_try = True
                p = parent(p)
            if in_try:
                ctx.ok('EXC', f"{fi.qualname}: {norm(c)[:40]} inside try/except ValueError")
                continue
            # `if num.isdecimal(): num = str(int(num))`: the test admits exactly the strings int() takes
            from ..srcmodel import guards as _guards, literals as _literals
            tested = [t for t, txt, pol in _literals(_guards(c)) if pol and isinstance(t, ast.Call)
                      and isinstance(t.func, ast.Attribute) and t.func.attr == 'isdecimal' and not t.args
                      and norm(t.func.value) == norm(arg)]
            if tested and not any(isinstance(x, ast.Name) and isinstance(x.ctx, ast.Store) and x.id == norm(arg)
                                  and tested[0].lineno < x.lineno < c.lineno for x in walk_local(fi.node)):
                ctx.ok('EXC', f"{fi.qualname}: {norm(c)[:40]} under `{norm(tested[0])}`")
                continue
            prov = flow.provenance(fi.node, arg)
            calls = flow.prov_calls(prov)
            strippers = sorted(cn for cn in calls if cn.split('.')[-1] in ('lstrip', 'rstrip', 'strip', 'replace'))
            if strippers and (calls & {'get_rightmost_lot', 'get_rightmost_sec', 'get_rightmost'}):
                ctx.violation('EXC', f"{fi.qualname}: {norm(c)[:40]} takes digits only",
                              f"the digit string reaches int() through {strippers}, which can leave it empty "
                              f"(e.g. '0' or '00'): ValueError on a section/lot written as 0",
                              key=f"EXC|{fi.qualname}|int|{norm(arg)[:30]}|strip", where=common.loc(fi, c))
                continue
            safe = False
            why = ''
            if calls & {'get_rightmost_lot', 'get_rightmost_sec', 'get_rightmost'}:
                safe, why = True, 'digit-only <kind>num group (RX-GROUPS)'
            elif any(p_[0] == 'sub' and ("'twp_num'" in p_[1] or "'rge_num'" in p_[1] or "group('twp_num')" in p_[1]) for p_ in prov) \
                    or any(cn in ('mo.group',) for cn in calls):
                safe, why = True, r"\d{1,3} group of the TRS unpacker"
            elif any(p_[0] == 'sub' and "split('L')" in p_[1] for p_ in prov) or 'lt.split' in calls:
                safe, why = "lots are rendered 'L<int>' by LotUnpacker", "lots are rendered 'L<int>' by LotUnpacker"
            elif all(p_[0] in ('const',) or (p_[0] == 'call' and p_[1] in ('str', 'int', 'len')) or p_[0] in ('sub',) for p_ in prov) \
                    and any(p_[0] == 'sub' and '[-1]' in p_[1] for p_ in prov):
                safe, why = True, 'element previously produced by int()/rjust'
            elif isinstance(arg, ast.Name) and arg.id in ('sec_num', 'previous_sec', 'lot_num', 'text'):
                safe = arg.id != 'text'
                why = 'digit string produced in this function'
                if arg.id == 'text':
                    safe, why = True, 'str_to_value wraps int() in try'  # covered by in_try normally
            if not safe and fi.node.name == 'unpack_twprge':
                # the number groups of the OCR pattern accept look-alike characters; unguarded int()
                # is fine only if the conversion table maps every one of them to a digit
                try:
                    ocr = ctx.fold.get('rgxlib.twprge', 'pp_twprge_ocr_scrub')
                    gf_ = common.group_facts(ctx, ocr)
                    from .c08 import ast_walk_sre
                    accepted = set()
                    for gname in ('twpnum', 'rgenum'):
                        if gname in gf_:
                            for it in gf_[gname].node:
                                for sub in ast_walk_sre(it):
                                    if sub[0] in rx.SINGLE:
                                        accepted |= {ch for ch in 'SsOoIiLl]|BbZzGgqQ' if rx.char_matches(sub[0], sub[1], ch, ocr.flags)}
                    tbl = ctx.repo.func('unpackers:ocr_scrub_alpha_to_num')
                    mapped = set(common.char_table(ctx, tbl))
                    left = sorted(accepted - mapped)
                    ctx.check(not left, 'EXC', f"{fi.qualname}: {norm(c)[:40]} takes digits only",
                              'every look-alike character of the OCR pattern is converted first',
                              f"`{norm(c)}` is no longer inside try/except ValueError, and the OCR pattern (IGNORECASE) also captures "
                              f"{left} in its number groups, which ocr_scrub_alpha_to_num leaves as they are: "
                              f"'T15{left[0]}N-R97W' with ocr_scrub raises ValueError out of the parse" if left else '',
                              key=f"EXC|{fi.qualname}|int|ocr-unconverted", where=common.loc(fi, c))
                    continue
                except AnalysisError:
                    pass
            ctx.shape(bool(safe), 'EXC', f"{fi.qualname}: {norm(c)[:40]} takes digits only", str(why),
                      why="neither inside try/except ValueError nor recognisably fed by a digit-only group")
    ctx.floor('int() sites', n, 6)
    # the premise used above: every number group the unpackers int() is digits only
    for rn, grps in (('multisec_regex', ('secnum', 'secnum_rightmost')),
                     ('multilot_regex', ('lotnum', 'lotnum_rightmost')),
                     ('multilot_with_aliquot_regex', ('lotnum', 'lotnum_rightmost'))):
        rv = common.regex_by_name(ctx, rn)
        gf = common.group_facts(ctx, rv)
        for g in grps:
            if g not in gf:
                ctx.undecided('EXC', f"{rn}: group {g} is digits only", 'group not found')
                continue
            ctx.check(gf[g].digit_only, 'EXC', f"{rn}: group {g} is digits only (the unpackers int() it)",
                      detail_bad=f"group {g} of {rn} can match a non-digit: int() in the unpacker raises ValueError for such "
                                 f"text (e.g. a lettered lot 'Lot 4A')", key=f"EXC|{rn}|{g}|digit-only", where=rv.module)


def _raises(ctx):
    n = 0
    for fi in _parser_funcs(ctx):
        for r in walk_local(fi.node):
            if not isinstance(r, ast.Raise):
                continue
            n += 1
            exc = r.exc
            name = None
            if isinstance(exc, ast.Call):
                name = dotted(exc.func)
            elif isinstance(exc, ast.Name):
                name = exc.id
            if name == 'illegal_key_error':
                name = 'ValueError'
            typ = (name or '').split('.')[-1]
            where = fi.qualname
            allowed = DOCUMENTED | {'IndexError'} if 'custom_sort' in where else DOCUMENTED
            if where.startswith('TractWriter'):
                allowed = allowed | {'RuntimeError'}
            ok = typ in allowed
            # re-raising, inside `except T`, the same T (a better message) adds no new exception
            h = parent(r)
            while h is not None and not isinstance(h, (ast.FunctionDef, ast.AsyncFunctionDef, ast.ExceptHandler)):
                h = parent(h)
            if isinstance(h, ast.ExceptHandler) and h.type is not None:
                caught = {(dotted(t) or '').split('.')[-1] for t in (h.type.elts if isinstance(h.type, ast.Tuple) else [h.type])}
                if exc is None or typ in caught:
                    ok = True
            gs = guards(r)
            if not ok and (gs or facts_at(r)):
                # an undocumented type behind a condition: whether any input can make the condition true is
                # not decided here (a consistency check on computed state - `if len(out) != len(self): raise
                # RuntimeError` - can never fire; a value check on the input can)
                ctx.undecided('EXC', f"{where}: raise {typ}",
                              f"`{norm(r)[:60]}` is not a documented rejection type, but it stands behind "
                              f"`{norm((gs or [(None, None)])[0][0])[:50] if gs else 'an earlier test'}`; whether that can hold on a reachable "
                              f"state is not decided")
            else:
                ctx.check(ok, 'EXC', f"{where}: raise {typ}", 'documented exception type',
                          f"`{norm(r)[:70]}` raises {typ}, which is not one of the documented rejection types "
                          f"{sorted(DOCUMENTED)}", key=f"EXC|{where}|raise|{typ}", where=common.loc(fi, r))
            # a raise must be an argument / state check: guarded by a condition
            in_except = False
            p = parent(r)
            while p is not None and not isinstance(p, (ast.FunctionDef, ast.AsyncFunctionDef)):
                if isinstance(p, ast.ExceptHandler):
                    in_except = True
                p = parent(p)
            final_fallthrough = where.endswith('is_multi') or where.endswith('_handle_type_specially')
            ctx.check(bool(gs) or bool(facts_at(r)) or in_except or final_fallthrough, 'EXC', f"{where}: raise {typ} is conditional",
                      detail_bad=f"unconditional `{norm(r)[:60]}` on a parser path", key=f"EXC|{where}|raise-uncond|{typ}",
                      where=common.loc(fi, r))
    ctx.floor('raise sites in the parser package', n, 12)
    # is_multi's last-resort raise needs <kind>num None: mandatory in both regexes (see C05)
    for rn, grp in (('multisec_regex', 'secnum'), ('multilot_regex', 'lotnum')):
        rv = common.regex_by_name(ctx, rn)
        gf = common.group_facts(ctx, rv)
        ctx.check(grp in gf and not gf[grp].optional, 'EXC', f"is_multi: final raise unreachable for {rn} ({grp} mandatory)",
                  detail_bad=f"{grp} became optional in {rn}: is_multi can raise ValueError on ordinary text",
                  key=f"EXC|is_multi|{rn}")
    # entry checks
    pi = ctx.repo.func('PLSSDesc.__init__')
    text_param = [p for p in pi.params() if p != 'self'][0]
    traises = [r for r in walk_local(pi.node) if isinstance(r, ast.Raise) and 'TypeError' in norm(r)]
    ok = any((f"isinstance({text_param}, str)", False) in [(t, pol) for _e, t, pol in facts_at(r)] for r in traises)
    ctx.tri(ok, not traises, 'EXC', 'PLSSDesc rejects non-str text with TypeError',
            detail_bad="PLSSDesc.__init__ no longer raises TypeError: non-string text fails later with an undocumented exception",
            key="EXC|PLSSDesc.__init__|TypeError")


def _at_least_one_tract(ctx):
    pc = ctx.repo.func('ChunkParser.parse_chunk')
    cfg, _ = flow.analyse(pc.node)
    copyall = [enclosing_stmt(c) for c in walk_local(pc.node) if isinstance(c, ast.Call) and dotted(c.func) == 'self._parse_copyall']
    fb = [n for n in walk_local(pc.node) if isinstance(n, ast.If) and norm(n.test) == 'not self.tract_components']
    if len(copyall) != 1 or len(fb) != 1:
        raise AnalysisError("parse_chunk: copy_all branch / fallback test not found")
    ctx.check(cfg.must_pass(cfg.entry, [cfg.node_of(copyall[0]), cfg.node_of(fb[0])]), 'SINK',
              'every path through parse_chunk stages a copy_all tract or reaches the empty-result fallback',
              detail_bad="a path returns from parse_chunk with possibly zero tract components", key="SINK|parse_chunk|one-tract")
    rep = [c for c in ast.walk(fb[0]) if isinstance(c, ast.Call) and dotted(c.func) == 'ChunkParser']
    ctx.shape(len(rep) == 1 and len(rep[0].args) >= 2 and norm(rep[0].args[1]) == 'COPY_ALL', 'SINK',
              'the fallback re-parses the chunk as copy_all (which always stages one tract)')
    ca = ctx.repo.func('ChunkParser._parse_copyall')
    calls = [c for c in walk_local(ca.node) if isinstance(c, ast.Call) and dotted(c.func) == 'self._stage_new_tract']
    ctx.tri(len(calls) == 1 and not guards(calls[0]), len(calls) == 1 and bool(guards(calls[0])), 'SINK',
            '_parse_copyall stages unconditionally',
            detail_bad="copy_all staging became conditional: a chunk can end with zero tracts", key="SINK|_parse_copyall|uncond")
    # chunker: at least one block - segment() is followed, for every layout, with an empty match list
    from .c04 import _segment_without_twprge
    ctx.attempt(_segment_without_twprge)
    for h in ('PLSSChunker._segment_twprge_first', 'PLSSChunker._segment_twprge_last'):
        f2 = ctx.repo.func(h)
        loops = [n for n in f2.node.body if isinstance(n, ast.For) and 'enumerate(matches)' in norm(n.iter)]
        ok = len(loops) == 1 and any(norm(s) == 'self.blocks.append(new_block)' for s in loops[0].body)
        ctx.shape(ok, 'SINK', f"{h.split('.')[-1]} appends one block per match, unconditionally")
    pi = ctx.repo.func('PLSSParser.__init__')
    ctx.shape('self.blocks = [self.text]' in [norm(s) for s in walk_local(pi.node) if isinstance(s, ast.stmt)], 'SINK',
              'without segmenting there is exactly one block')
    pp = ctx.repo.func('PLSSParser.parse')
    loops = [n for n in pp.node.body if isinstance(n, ast.For) and norm(n.iter) == 'self.blocks']
    ok = len(loops) == 1 and any(isinstance(s, ast.Expr) and isinstance(s.value, ast.Call)
                                 and dotted(s.value.func) == 'ChunkParser' for s in loops[0].body)
    ctx.shape(ok, 'SINK', 'every block gets a ChunkParser (unconditionally)')
    # sections handed to construct_tracts are non-empty lists
    gs = ctx.repo.func('ChunkParser.get_next_sec')
    t = ' '.join(norm(s) for s in walk_local(gs.node) if isinstance(s, ast.stmt))
    ctx.shape('[MasterConfig._ERR_SEC]' in t, 'SINK', 'no section left -> a one-element error list')
    su = ctx.repo.func('SecUnpacker.unpack_sections')
    t = ' '.join(norm(s) for s in walk_local(su.node) if isinstance(s, ast.stmt))
    ctx.shape('working_sec_list.append(new_sec)' in t, 'SINK', 'SecUnpacker yields at least the matched section')


def _kind(fi, expr, depth=0):
    """'str' / 'int' / 'none' / 'unknown' for the value of expr."""
    if isinstance(expr, ast.JoinedStr):
        return 'str'
    if isinstance(expr, ast.Constant):
        v = expr.value
        return 'none' if v is None else 'str' if isinstance(v, str) else 'int' if isinstance(v, (int, float)) and not isinstance(v, bool) else 'unknown'
    if isinstance(expr, ast.Call):
        nm = dotted(expr.func) or ''
        last = expr.func.attr if isinstance(expr.func, ast.Attribute) else nm.split('.')[-1]
        if last in ('rjust', 'ljust', 'zfill', 'strip', 'lstrip', 'rstrip', 'lower', 'upper', 'replace', 'format', 'join', 'group') or nm == 'str':
            return 'str'
        if nm in ('int', 'len', 'abs', 'sum', 'max', 'min') and nm != 'max':
            return 'int'
        if nm == 'remove_fractions' or last in ('twprge_natural_to_short', 'unpack_twprge', 'cleanup_desc'):
            return 'str'
        return 'unknown'
    if isinstance(expr, ast.BinOp) and isinstance(expr.op, (ast.Add, ast.Sub, ast.Mult, ast.FloorDiv)):
        a, b = _kind(fi, expr.left, depth + 1), _kind(fi, expr.right, depth + 1)
        if 'int' in (a, b) and 'str' not in (a, b):
            return 'int'
        if a == b == 'str':
            return 'str'
        return 'unknown'
    if isinstance(expr, ast.Name) and depth < 4:
        cfg, rd = flow.analyse(fi.node)
        try:
            node = flow.stmt_node(cfg, expr)
        except AnalysisError:
            return 'unknown'
        kinds = set()
        for d in rd.reaching(node, expr.id):
            val = rd.defs[d]
            if isinstance(val, tuple) and val[0] == 'iter':
                it = val[1]
                if isinstance(it, ast.Call) and dotted(it.func) == 'range':
                    kinds.add('int')
                else:
                    kinds.add('unknown')
            elif isinstance(val, ast.AST):
                kinds.add(_kind(fi, val, depth + 1))
            else:
                kinds.add('unknown')
        if len(kinds) == 1:
            return kinds.pop()
        if 'int' in kinds and kinds <= {'int', 'unknown'}:
            return 'unknown'
        return 'unknown'
    return 'unknown'


STR_LISTS = (
    ('SecUnpacker.unpack_sections', ('working_sec_list', 'self.sec_list'), "section numbers ('01'..'36')"),
    ('LotUnpacker.unpack_lots', ('self.lot_list', '=working_lot_list'), "lots ('L1', ...)"),
    ('TractParser.parse', ('self.lots', 'self.qqs', 'self.aliquots_whole'), 'lots / aliquots'),
    ('PLSSParser.__init__', ('short_versions',), 'fixed Twp/Rges'),
)


def _str_lists(ctx):
    """Lists whose elements are later joined with ','.join(...) (flag texts,
    TRS construction) only ever receive str elements."""
    for spec, names0, what in STR_LISTS:
        fi = ctx.repo.func(spec)
        n = 0
        comp_only = tuple(x[1:] for x in names0 if x.startswith('='))
        names = tuple(x for x in names0 if not x.startswith('='))
        for c in walk_local(fi.node):
            if isinstance(c, ast.Call) and isinstance(c.func, ast.Attribute) and c.func.attr == 'append' \
                    and norm(c.func.value) in names and len(c.args) == 1:
                n += 1
                k = _kind(fi, c.args[0])
                ctx.tri(k == 'str', k in ('int', 'none'), 'EXC', f"{fi.qualname}: {norm(c)[:50]} appends a str",
                        f"{what}", f"`{norm(c)}` appends {'an int' if k == 'int' else 'None'} to a list of {what} that is later "
                        f"joined with ','.join(): TypeError when a flag is built / wrong TRS text",
                        key=f"EXC|{fi.qualname}|elemtype|{norm(c.func.value)}|{norm(c.args[0])[:30]}", where=common.loc(fi, c))
        for a in walk_local(fi.node):
            if isinstance(a, ast.Assign) and norm(a.targets[0]) in names + comp_only + tuple(n_.split('.')[-1] for n_ in names) \
                    and isinstance(a.value, ast.ListComp):
                n += 1
                k = _kind(fi, a.value.elt)
                ctx.tri(k == 'str', k in ('int', 'none'), 'EXC', f"{fi.qualname}: {norm(a)[:60]} builds str elements",
                        what, f"`{norm(a)[:80]}` produces non-str elements", key=f"EXC|{fi.qualname}|elemtype|{norm(a.targets[0])}",
                        where=common.loc(fi, a))
        if n == 0:
            ctx.undecided('EXC', f"{fi.qualname}: element types of {names}", 'no append / list-comprehension recognised')
    # join sites themselves: a comprehension argument must produce str
    n_join = 0
    for fi in _parser_funcs(ctx):
        for c in walk_local(fi.node):
            if isinstance(c, ast.Call) and isinstance(c.func, ast.Attribute) and c.func.attr == 'join' \
                    and isinstance(c.func.value, (ast.Constant, ast.Name)) and c.args \
                    and isinstance(c.args[0], (ast.ListComp, ast.GeneratorExp)):
                n_join += 1
                k = _kind(fi, c.args[0].elt)
                ctx.tri(k == 'str', k in ('int', 'none'), 'EXC', f"{fi.qualname}: {norm(c)[:50]} joins str elements",
                        detail_bad=f"`{norm(c)[:70]}` joins non-str elements: TypeError", key=f"EXC|{fi.qualname}|join|{norm(c.args[0].elt)[:30]}",
                        where=common.loc(fi, c))
    ctx.notes['join_comprehension_sites'] = n_join


def _kwargs(ctx):
    from .c13 import _consumer_kwargs
    for spec, callee, target in (('PLSSDesc.parse', 'PLSSParser', 'PLSSParser.__init__'),
                                 ('Tract.parse', 'TractParser', 'TractParser.__init__')):
        fi = ctx.repo.func(spec)
        call, kw = _consumer_kwargs(ctx, fi, callee)
        params = set(ctx.repo.func(target).params())
        unknown = set(kw) - params
        ctx.check(not unknown, 'EXC', f"{spec}: every keyword given to {callee} is a parameter",
                  detail_bad=f"{sorted(unknown)} are not parameters of {callee}: TypeError on every parse",
                  key=f"EXC|{spec}|kwargs")
    # validation parity of the two config readers
    s = ctx.repo.func('Config._set_str_to_values')
    st = ' '.join(norm(x) for x in walk_local(s.node) if isinstance(x, ast.stmt))
    # the conversion may live in a helper the value is handed to (`value = _convert_value(attribute, value, ...)`)
    handed = False
    for c in walk_local(s.node):
        if isinstance(c, ast.Call) and any(isinstance(a, ast.Name) and a.id in ('value', 'raw_value', 'val') for a in c.args):
            nm = dotted(c.func) or ''
            if nm.split('.')[-1] in ('str_to_value', 'setattr', 'verify_default_ns', 'verify_default_ew', 'isinstance'):
                continue
            node = flow.RESOLVER(nm, c, s.node) if flow.RESOLVER and nm else None
            if node is not None:
                params = [a.arg for a in node.args.args if a.arg not in ('self', 'cls')]
                pos = [i for i, a in enumerate(c.args) if isinstance(a, ast.Name) and a.id in ('value', 'raw_value', 'val')]
                txt_ = ' '.join(norm(x) for x in ast.walk(node) if isinstance(x, ast.stmt))
                if pos and pos[0] < len(params) and params[pos[0]] != 'value':
                    import re as _re
                    txt_ = _re.sub(rf"\b{params[pos[0]]}\b", 'value', txt_)
                st += ' ' + txt_
            handed = True
    for cat, needle in (('bool', 'not isinstance(value, bool)'), ('int', 'not isinstance(value, int)'),
                        ('layout', 'value not in _IMPLEMENTED_LAYOUTS')):
        ctx.tri(needle in st, needle not in st and not handed, 'EXC',
                f"config text: {cat} values are validated (ValueError), not stored as str",
                detail_bad=f"a malformed {cat} value in a config string is stored and fails later inside the parse",
                key=f"EXC|_set_str_to_values|{cat}",
                why="the value is handed to a helper whose validation was not recognised")


def _optional_attrs_handed_to_derefs(ctx):
    """ChunkParser starts with `working_twprge = None` / `working_sec = None`
    and tests them against None in several places (so it believes they can
    still be None while the chunk is walked).  Handing such an attribute to a
    function that calls a method on its parameter straight away
    (`twprge_short_to_natural(self.working_twprge)` -> `twprge.lower()`),
    where no test on the way says it is set, raises AttributeError for a
    description whose section comes before any Twp/Rge."""
    ci = ctx.repo.cls('plss_parse:ChunkParser')
    init = ci.methods.get('__init__')
    if init is None:
        return
    optional = {t.attr for a in walk_local(init.node) if isinstance(a, ast.Assign) and isinstance(a.value, ast.Constant)
                and a.value.value is None for t in a.targets if isinstance(t, ast.Attribute) and norm(t.value) == 'self'}
    believed = set()
    for m in ci.methods.values():
        for x in ast.walk(m.node):
            if isinstance(x, ast.Compare) and any(isinstance(y, ast.Constant) and y.value is None for y in ast.walk(x)):
                believed |= {y.attr for y in ast.walk(x) if isinstance(y, ast.Attribute) and norm(y.value) == 'self'}
    optional &= believed
    n = 0
    for m in ci.methods.values():
        for c in walk_local(m.node):
            if not isinstance(c, ast.Call):
                continue
            for i, a in enumerate(c.args):
                if not (isinstance(a, ast.Attribute) and norm(a.value) == 'self' and a.attr in optional):
                    continue
                node_ = flow.RESOLVER(dotted(c.func) or '', c, m.node) if flow.RESOLVER and dotted(c.func) else None
                cf = getattr(node_, '_func', None) if node_ is not None else None
                if cf is None:
                    continue
                params = [p_ for p_ in cf.params() if not (isinstance(c.func, ast.Attribute) and p_ in ('self', 'cls'))]
                if i >= len(params):
                    continue
                pname = params[i]
                # an unconditional method call / subscript / iteration on the parameter at the top level of the callee
                deref = None
                for st in cf.node.body:
                    if isinstance(st, (ast.If, ast.Try, ast.For, ast.While, ast.With)):
                        break
                    for x in ast.walk(st):
                        if isinstance(x, ast.Attribute) and isinstance(x.value, ast.Name) and x.value.id == pname \
                                and isinstance(getattr(x, '_parent', None), ast.Call) and x._parent.func is x:
                            deref = x
                    if deref is not None:
                        break
                if deref is None:
                    continue
                known = any(('is None' in txt and a.attr in txt and not pol) or (txt == f"self.{a.attr}" and pol)
                            or (f"self.{a.attr} in" in txt and 'None' in txt and not pol)
                            for _e, txt, pol in facts_at(c))
                n += 1
                ctx.check(known, 'EXC', f"{m.qualname}: `{norm(c)[:50]}` hands over an attribute known to be set",
                          detail_bad=f"`self.{a.attr}` starts as None (and ChunkParser tests it against None elsewhere); "
                                     f"{cf.qualname}() calls `{norm(deref)}()` on it unconditionally, and nothing in front of "
                                     f"this call says it is set: AttributeError for a chunk in which this line runs before the "
                                     f"first Twp/Rge / section was staged", key=f"EXC|{m.qualname}|none-deref|{a.attr}",
                          where=common.loc(m, c))
    return n
