"""
C02 -- aliquot parsing tiles exactly the described area at the requested
depth.
"""

import ast

from .. import AnalysisError, flow
from ..fold import is_unknown
from ..srcmodel import walk_local, norm, dotted, guards, parent, facts_at, literals
from . import common, forward
from .c16 import fixpoint_loops

from .c13 import lockdown, qq_depth_precedence, keyword_wins_depth

META = {
    'explanation': (
        "The tiling arithmetic itself (depth per position x settings) is a "
        "runtime quantity and is not decided. Decided: the geometry tables "
        "agree with the naming geometry they encode (a half subdivides into "
        "exactly the quarters whose name contains its letter, ALL into all "
        "four, same-axis pairs, N/S letter first in quarter names); the "
        "standardisation fixed-point loop snapshots a copy (its helpers "
        "mutate in place); each index loop advances by exactly the number of "
        "components it consumed (every component is emitted once); the depth "
        "truncation acts on the standardised list, not before it; qq_depth "
        "overrides min/max."
        ' Also: the stability test of the standardisation loop spans all passes of an iteration (no late snapshot); conditional constant propagation decides, for all 16 given/omitted combinations, that a depth keyword reaches the parser as given; clean chains in any order are in aliquot_unpacker_regex; option forwarding (dead / swapped / default-mismatched parameters).'
        ' Round 7: the fix-point test watches the list, not its length; joiners across a line break; parse()/preprocess() store no configurable setting (depth given for one call does not leak into the next).'
        ' Round 8: a condition computed once from the component list is not reused across fix-point rounds (stale gate).'
        ' Round 9: pass_back_halves writes the one-letter component to [i] (the rewritten pair does not trigger the rewrite again); the depth lock-down of Tract.parse (shared with C13).'
        ' Round 12: constant slices fold, so a table written as slices of QQ_QUARTERS is compared with the geometry.'
        ' Also (round 12): the snapshot the fixed-point loop compares with is never handed to a helper that rewrites its argument in place.'),
    'families': ['TBL', 'FIXPOINT', 'CONSUME', 'ORDER', 'FORWARD', 'DEADPARAM', 'SIB-DEFAULTS'],
}


def _chain_language(ctx):
    """every clean chain of halves and quarters, in any order, is unpacked as ONE aliquot"""
    import re as _re
    from .. import rx as _rx
    from . import families as _F
    rv = ctx.fold.get('rgxlib.aliquots', 'aliquot_unpacker_regex')
    cex = ctx.cache(('inc', _F.ALIQUOT_CHAIN, rv.pattern, rv.flags),
                    lambda: _rx.included(_F.ALIQUOT_CHAIN, 0, rv.pattern, rv.flags))
    ctx.check(cex is None, 'RX-LANG', 'clean aliquot chains (halves and quarters in any order) <= L(aliquot_unpacker_regex)',
              'family included',
              f"the chain {cex!r} is no longer matched as a whole by aliquot_unpacker_regex: the aliquot is dropped / cut "
              f"in two by TractParser", key='RX-LANG|aliquot_unpacker_regex|chains', witness=repr(cex))


def check(ctx):
    ctx.consult('tract/aliquot_parse.py')
    ctx.attempt(_tables)
    ctx.attempt(fixpoint_loops, 'aliquot_parse', 1)
    ctx.attempt(_consume)
    ctx.attempt(_order)
    ctx.attempt(_standardize)
    ctx.attempt(_fixpoint_window)
    ctx.attempt(_index_bounds)
    ctx.attempt(_depth_table)
    ctx.attempt(_subdivide)
    ctx.attempt(_pass_back_linear)
    ctx.attempt(pass_back_makes_progress)
    ctx.attempt(forward.check_all, module_suffixes=('tract.aliquot_parse', 'tract.tract', 'tract.tract_parse'))
    from .c07 import _joiners                 # a chain that is not joined ('N/2 of the\nNE/4') parses as overlapping pieces
    ctx.attempt(_joiners)
    from .c14 import settings_are_inputs      # depth settings given for one call must not leak into the next
    ctx.attempt(settings_are_inputs, rule='LOCK')
    ctx.attempt(lockdown, ctx.repo.func('Tract.parse'), only=('qq_depth', 'qq_depth_min', 'qq_depth_max', 'break_halves'))
    ctx.attempt(qq_depth_precedence, ctx.repo.func('Tract.parse'))
    ctx.attempt(keyword_wins_depth)
    from .c13 import _lock_tract              # the depth keywords reach TractParser as given (qq_depth folded into min / max)
    ctx.attempt(_lock_tract)
    ctx.attempt(_chain_language)
    ctx.attempt(common.config_words, plss=('qq_depth', 'qq_depth_min', 'qq_depth_max', 'break_halves'), tract=('qq_depth', 'qq_depth_min', 'qq_depth_max', 'break_halves'))
    ctx.attempt(_snapshot_is_not_worked_on)
    ctx.attempt(_blocks_reach_parse_aliquot_in_its_case)


def _tables(ctx):
    g = lambda n: ctx.fold.get('aliquot_parse', n)
    halves, quarters = g('QQ_HALVES'), g('QQ_QUARTERS')
    sub, same = g('QQ_SUBDIVIDE_DEFINITIONS'), g('QQ_SAME_AXIS')
    ALL = g('_ALL')
    ctx.check(set(halves) == {'N', 'S', 'E', 'W'} and len(halves) == 4, 'TBL', 'QQ_HALVES == {N,S,E,W}',
              detail_bad=f"QQ_HALVES = {halves}", key="TBL|QQ_HALVES")
    ctx.check(set(quarters) == {'NE', 'NW', 'SE', 'SW'} and len(quarters) == 4, 'TBL',
              'QQ_QUARTERS == {NE,NW,SE,SW} (N/S letter first)',
              detail_bad=f"QQ_QUARTERS = {quarters}", key="TBL|QQ_QUARTERS")
    if not isinstance(sub, dict):
        raise AnalysisError("QQ_SUBDIVIDE_DEFINITIONS does not fold to a dict")
    for h in 'NSEW':
        want = {q for q in ('NE', 'NW', 'SE', 'SW') if h in q}
        got = sub.get(h)
        ctx.check(got is not None and set(got) == want and len(got) == 2, 'TBL',
                  f"QQ_SUBDIVIDE_DEFINITIONS[{h}] == {sorted(want)}",
                  detail_bad=f"the {h} half subdivides into {got}: the pieces no longer tile the half",
                  key=f"TBL|QQ_SUBDIVIDE_DEFINITIONS|{h}")
    got = sub.get(ALL)
    ctx.check(got is not None and set(got) == {'NE', 'NW', 'SE', 'SW'} and len(got) == 4, 'TBL',
              'QQ_SUBDIVIDE_DEFINITIONS[ALL] == the four quarters',
              detail_bad=f"ALL subdivides into {got}", key="TBL|QQ_SUBDIVIDE_DEFINITIONS|ALL")
    ctx.check(set(sub.keys()) == {'N', 'S', 'E', 'W', ALL}, 'TBL', 'QQ_SUBDIVIDE_DEFINITIONS keys',
              detail_bad=f"keys {sorted(map(str, sub.keys()))}", key="TBL|QQ_SUBDIVIDE_DEFINITIONS|keys")
    for h, axis in (('N', {'N', 'S'}), ('S', {'N', 'S'}), ('E', {'E', 'W'}), ('W', {'E', 'W'})):
        ctx.check(set(same.get(h, ())) == axis, 'TBL', f"QQ_SAME_AXIS[{h}] == {sorted(axis)}",
                  detail_bad=f"QQ_SAME_AXIS[{h}] = {same.get(h)}", key=f"TBL|QQ_SAME_AXIS|{h}")
    ctx.check(set(g('QQ_NS')) == {'N', 'S'} and set(g('QQ_EW')) == {'E', 'W'}, 'TBL', 'QQ_NS / QQ_EW',
              detail_bad="axis tuples changed", key="TBL|QQ_NS_EW")



def _index_loops(fi):
    for n in walk_local(fi.node):
        if isinstance(n, ast.While) and isinstance(n.test, ast.Compare) \
                and isinstance(n.test.left, ast.Name) and 'len(' in norm(n.test):
            yield n


def _consume(ctx):
    """index loops of combine_consecutive_halves / pass_back_halves: i advances
    by the number of list elements consumed into the output in that branch."""
    fi = ctx.repo.func('aliquot_parse:combine_consecutive_halves')
    loops = list(_index_loops(fi))
    if len(loops) != 1:
        raise AnalysisError("combine_consecutive_halves: index loop not found")
    loop = loops[0]
    ivar = loop.test.left.id
    # names bound to L[i] / L[i+1]
    offs = {}
    for n in ast.walk(loop):
        if isinstance(n, ast.Assign) and isinstance(n.targets[0], ast.Name) \
                and isinstance(n.value, ast.Subscript):
            sl = norm(n.value.slice)
            if sl == ivar:
                offs[n.targets[0].id] = 0
            elif sl.replace(' ', '') == f"{ivar}+1":
                offs[n.targets[0].id] = 1
    if set(offs.values()) != {0, 1}:
        raise AnalysisError("combine_consecutive_halves: L[i] / L[i+1] bindings not found")
    incs = [n for n in ast.walk(loop) if isinstance(n, ast.AugAssign) and norm(n.target) == ivar]
    ctx.floor('combine_consecutive_halves index increments', len(incs), 2)
    for inc in incs:
        blk = parent(inc)
        body = blk.body if inc in getattr(blk, 'body', []) else getattr(blk, 'orelse', [])
        consumed = set()
        for st in body:
            for c in ast.walk(st):
                if isinstance(c, ast.Call) and isinstance(c.func, ast.Attribute) and c.func.attr == 'append':
                    prov = flow.provenance(fi.node, c.args[0])
                    for nm, off in offs.items():
                        if any(p[0] == 'sub' and norm(p[2].slice).replace(' ', '') == (ivar if off == 0 else f"{ivar}+1")
                               for p in prov if p[0] == 'sub'):
                            consumed.add(off)
        if not consumed:
            raise AnalysisError("combine_consecutive_halves: increment in a branch that appends nothing")
        need = max(consumed) + 1
        step = ctx.fold.eval(inc.value, {}, fi.module.name)
        ctx.check(step == need, 'CONSUME',
                  f"combine_consecutive_halves: branch consuming {need} component(s) advances by {need}",
                  detail_bad=f"`{norm(inc)}` after consuming {need} component(s): a component is "
                             f"{'re-read and emitted twice' if (step or 0) < need else 'skipped'}",
                  key=f"CONSUME|combine_consecutive_halves|{need}", where=common.loc(fi, inc))
    # the last-item branch appends aq1 and breaks
    ctx.shape(any(isinstance(n, ast.Break) for n in ast.walk(loop)), 'CONSUME',
              'combine_consecutive_halves: last component emitted then break')

    fp = ctx.repo.func('aliquot_parse:pass_back_halves')
    loops = list(_index_loops(fp))
    if len(loops) != 1:
        raise AnalysisError("pass_back_halves: index loop not found")
    incs = [n for n in ast.walk(loops[0]) if isinstance(n, ast.AugAssign)]
    ok = incs and all(norm(i).replace(' ', '').endswith('+=1') for i in incs)
    ctx.shape(bool(ok), 'CONSUME', 'pass_back_halves slides by one component')
    revs = [c for c in walk_local(fp.node) if isinstance(c, ast.Call) and norm(c.func).endswith('.reverse')]
    # other spellings of a reversal: x[::-1], reversed(x), list(reversed(x))
    revs += [c for c in walk_local(fp.node) if isinstance(c, ast.Subscript) and isinstance(c.slice, ast.Slice)
             and c.slice.lower is None and c.slice.upper is None and c.slice.step is not None and norm(c.slice.step) == '-1']
    revs += [c for c in walk_local(fp.node) if isinstance(c, ast.Call) and dotted(c.func) == 'reversed']
    ctx.tri(len(revs) == 2, len(revs) == 1, 'CONSUME', 'pass_back_halves reverses before and after its scan',
            detail_bad="a single reverse(): the component list comes back in reversed order",
            key="CONSUME|pass_back_halves|reverse")
    # both rebuilt components written back
    stores = [n for n in ast.walk(loops[0]) if isinstance(n, ast.Assign) and isinstance(n.targets[0], ast.Subscript)]
    ctx.tri(len(stores) == 2, len(stores) == 1, 'CONSUME', 'pass_back_halves writes back both swapped components',
            detail_bad="only one of the two swapped components is written back", key="CONSUME|pass_back_halves|writeback")
    t = ' '.join(norm(s) for s in ast.walk(loops[0]) if isinstance(s, ast.stmt))
    ctx.shape('char1_ns, char2_ew = aq1' in t, 'CONSUME', 'pass_back_halves splits a quarter into (N/S, E/W) letters')


def _order(ctx):
    fi = ctx.repo.func('aliquot_parse:parse_aliquot')
    std = [c for c in walk_local(fi.node) if isinstance(c, ast.Call)
           and dotted(c.func) == 'standardize_aliquot_components']
    if len(std) != 1:
        raise AnalysisError("parse_aliquot: standardize_aliquot_components call not found")
    slices = [n for n in walk_local(fi.node) if isinstance(n, ast.Subscript)
              and isinstance(n.slice, ast.Slice) and 'qq_depth_max' in norm(n.slice)
              and isinstance(n.ctx, ast.Load)]
    if len(slices) != 1:
        raise AnalysisError("parse_aliquot: qq_depth_max truncation not found")
    prov_slice = flow.provenance(fi.node, slices[0].value)
    ctx.check('standardize_aliquot_components' in flow.prov_calls(prov_slice), 'ORDER',
              'parse_aliquot truncates the standardised component list',
              detail_bad="the qq_depth_max truncation is applied to a list that has not been "
                         "standardised yet (halves not yet combined / passed back)",
              key="ORDER|parse_aliquot|truncate-after-standardize", where=common.loc(fi, slices[0]))
    prov_arg = flow.provenance(fi.node, std[0].args[0])
    ctx.check(not any(p[0] == 'sub' and 'qq_depth_max' in p[1] for p in prov_arg), 'ORDER',
              'parse_aliquot standardises the full component list',
              detail_bad="standardize_aliquot_components receives an already truncated list",
              key="ORDER|parse_aliquot|standardize-full")
    sl = slices[0].slice
    ctx.tri(sl.lower is None and norm(sl.upper) == 'qq_depth_max', sl.lower is not None, 'ORDER',
            'truncation keeps the first (largest) qq_depth_max components',
            detail_bad=f"truncation slice is [{norm(sl)}]: the largest components are cut off", key="ORDER|parse_aliquot|slice")
    g = [norm(t) for t, pol in guards(slices[0]) if pol]
    ctx.shape(any('qq_depth_max is not None' in x for x in g),
              'ORDER', 'truncation only when a maximum is set')
    # reversed once before standardisation (largest component first)
    revs = [c for c in walk_local(fi.node) if isinstance(c, ast.Call) and norm(c.func) == 'component_list.reverse']
    cfg, _ = flow.analyse(fi.node)
    ok = len(revs) == 1
    if ok:
        from ..srcmodel import enclosing_stmt
        ok = cfg.precedes_always(enclosing_stmt(revs[0]), enclosing_stmt(std[0]))
    ctx.tri(ok, len(revs) == 0 and 'reversed(' not in ' '.join(norm(s_) for s_ in fi.node.body) and '[::-1]' not in ' '.join(norm(s_) for s_ in fi.node.body),
            'ORDER', 'component list reversed once, before standardisation',
            detail_bad="the component list is never reversed: components are processed smallest-first",
            key="ORDER|parse_aliquot|reverse")
    # qq_depth overrides min/max
    ok = any(isinstance(n, ast.If) and norm(n.test) == 'qq_depth is not None'
             and any(norm(s) == 'qq_depth_min = qq_depth_max = qq_depth' for s in n.body)
             for n in fi.node.body)
    ctx.shape(ok, 'ORDER', 'parse_aliquot: qq_depth overrides min and max')
    # components come from single_aliquot_unpacker_regex group aliquot_no_frac
    t = ' '.join(norm(s) for s in fi.node.body)
    ctx.shape("mo['aliquot_no_frac']" in t and 'single_aliquot_unpacker_regex.finditer(text)' in t, 'ORDER',
              'components are the aliquot_no_frac groups of the unpacker regex')
    rv = ctx.fold.get('rgxlib.aliquots', 'single_aliquot_unpacker_regex')
    L = common.lang(ctx, rv)
    for s in ('N½', 'NE¼', 'ALL', 'S½', 'SW¼', 'E', 'NW'):
        ctx.check(L.fullmatch(s), 'RX-LANG', f"single_aliquot_unpacker_regex matches {s!r}",
                  detail_bad=f"{s!r} no longer a component", key=f"RX-LANG|single_aliquot_unpacker_regex|{s}")


def _standardize(ctx):
    fi = ctx.repo.func('aliquot_parse:standardize_aliquot_components')
    loops = [n for n in fi.node.body if isinstance(n, ast.While)]
    if len(loops) != 1:
        raise AnalysisError("standardize_aliquot_components: loop not found")
    calls = [dotted(c.func) for c in ast.walk(loops[0]) if isinstance(c, ast.Call) and dotted(c.func)]
    order = [c for c in calls if c in ('pass_back_halves', 'combine_consecutive_halves')]
    ctx.tri(order == ['pass_back_halves', 'combine_consecutive_halves'],
            set(order) != {'pass_back_halves', 'combine_consecutive_halves'} and bool(order), 'ORDER',
            'standardisation = pass_back_halves then combine_consecutive_halves, to a fixed point',
            detail_bad=f"passes are {order}: one of the two standardisation passes is no longer applied",
            key="ORDER|standardize|passes")
    # combine condition: two halves on different axes
    fc = ctx.repo.func('aliquot_parse:combine_consecutive_halves')
    t = ' '.join(norm(s) for s in walk_local(fc.node) if isinstance(s, ast.stmt))
    ctx.shape('aq1 in QQ_HALVES' in t and 'aq2 in QQ_HALVES' in t
              and 'aq2 not in QQ_SAME_AXIS.get(aq1, ())' in t and 'all(match_conditions)' in t, 'ORDER',
              'halves are combined only when both are halves on different axes')
    ctx.shape("f'{aq2}{aq1}' if aq1 in 'EW' else f'{aq1}{aq2}'" in t.replace('"', "'"), 'ORDER',
              'combined quarter is named N/S letter first')
    fp = ctx.repo.func('aliquot_parse:pass_back_halves')
    t = ' '.join(norm(s) for s in walk_local(fp.node) if isinstance(s, ast.stmt))
    ctx.shape('if not (aq2 in QQ_HALVES and aq1 in QQ_QUARTERS)' in t, 'ORDER',
              'pass_back_halves acts only on a half following a quarter')


def _fixpoint_window(ctx):
    """A multi-pass fixed-point loop compares the value from BEFORE the first
    pass of an iteration with the value AFTER the last one.  If both sides of
    the stability test were produced by passes of the same iteration, the
    earlier passes are outside the window: the loop stops as soon as the last
    pass changes nothing although an earlier pass just enabled more work."""
    fi = ctx.repo.func('aliquot_parse:standardize_aliquot_components')
    loops = [n for n in fi.node.body if isinstance(n, ast.While)]
    construct = 'standardize_aliquot_components: the stability test spans all passes of an iteration'
    if len(loops) != 1:
        ctx.undecided('FIXPOINT', construct, 'loop not recognised')
        return
    loop = loops[0]
    repo_names = {f.node.name for f in ctx.repo.funcs.values() if f.module is fi.module and f.outer is None}
    body = loop.body
    # events in body order: (index, target name, kind, callee)
    events = []
    for i, st in enumerate(body):
        for n in ast.walk(st):
            if isinstance(n, ast.Assign) and len(n.targets) == 1 and isinstance(n.targets[0], ast.Name):
                v = n.value
                if isinstance(v, ast.Call) and dotted(v.func) in repo_names:
                    events.append((i, n.targets[0].id, 'pass', dotted(v.func)))
                else:
                    events.append((i, n.targets[0].id, 'other', norm(v)[:30]))
    passes = [e for e in events if e[2] == 'pass']
    if len({e[3] for e in passes}) < 2:
        ctx.undecided('FIXPOINT', construct, 'fewer than two passes in the loop body')
        return
    # the stability comparison: loop test, or an `if a == b` / `if a != b` in the body
    sites = []
    if isinstance(loop.test, ast.Compare) and isinstance(loop.test.ops[0], (ast.Eq, ast.NotEq)):
        sites.append((len(body), loop.test))
    for i, st in enumerate(body):
        if isinstance(st, ast.If) and isinstance(st.test, ast.Compare) and isinstance(st.test.ops[0], (ast.Eq, ast.NotEq)) \
                and any(isinstance(x, (ast.Return, ast.Break)) for x in ast.walk(st)):
            sites.append((i, st.test))
    if not sites:
        ctx.undecided('FIXPOINT', construct, 'stability comparison not recognised')
        return
    for pos, cmp_ in sites:
        ops = [cmp_.left, cmp_.comparators[0]]
        # a projection (the length) of the list is not the list: a pass that only
        # moves components leaves the length alone
        proj = [o for o in ops if isinstance(o, ast.Call) and dotted(o.func) == 'len']
        if not proj:
            for o in ops:
                if isinstance(o, ast.Name):
                    srcs = [n.value for n in ast.walk(loop) if isinstance(n, ast.Assign) and norm(n.targets[0]) == o.id]
                    proj += [v for v in srcs if isinstance(v, ast.Call) and dotted(v.func) == 'len']
        if proj:
            movers = sorted({e[3] for e in passes})
            ctx.violation('FIXPOINT', construct,
                          f"`{norm(cmp_)}` watches only the LENGTH of the component list: a pass that moves a half past a "
                          f"quarter ({', '.join(movers)}) changes the list but not its length, so the loop stops while "
                          f"halves are still behind quarters (chains with two or more quarters before a half)",
                          key="FIXPOINT|standardize_aliquot_components|length-only", where=common.loc(fi, cmp_))
            continue
        if not all(isinstance(o, ast.Name) for o in ops):
            ctx.undecided('FIXPOINT', construct, f"`{norm(cmp_)}` does not compare two names")
            continue
        last = {}
        for o in ops:
            prior = [e for e in events if e[1] == o.id and e[0] < pos]
            last[o.id] = prior[-1] if prior else None
        # a snapshot (copy / alias of the subject) taken after a pass of the
        # same iteration leaves that pass outside the window
        late = []
        for o in ops:
            ev_ = last[o.id]
            if ev_ is not None and ev_[2] == 'other':
                before = [e for e in passes if e[0] < ev_[0]]
                if before:
                    late.append((o.id, ev_, before))
        if late:
            name, ev_, before = late[0]
            ctx.violation('FIXPOINT', construct,
                          f"the snapshot `{name} = {ev_[3]}` is taken after {before[0][3]}() has already run in the same "
                          f"iteration: the loop ends when the remaining pass changes nothing, even if {before[0][3]}() has "
                          f"just moved a half to where it can be combined",
                          key="FIXPOINT|standardize_aliquot_components|window", where=common.loc(fi, cmp_))
            continue
        kinds = [last[o.id][2] if last[o.id] else 'carried' for o in ops]
        both_passes = kinds == ['pass', 'pass'] and last[ops[0].id][3] != last[ops[1].id][3]
        outside = sorted({e[3] for e in passes} - {last[o.id][3] for o in ops if last[o.id] and last[o.id][2] == 'pass'}) \
            if both_passes else []
        first_pass = min(e[0] for e in passes)
        earlier = [last[o.id] for o in ops if last[o.id] and last[o.id][2] == 'pass']
        ctx.tri(kinds.count('pass') <= 1, both_passes, 'FIXPOINT', construct,
                f"`{norm(cmp_)}`: one side is carried over from before the passes",
                f"`{norm(cmp_)}` compares the output of {last[ops[0].id][3] if last[ops[0].id] else '?'}() with the output "
                f"of {last[ops[1].id][3] if last[ops[1].id] else '?'}() of the same iteration: the loop ends when the last "
                f"pass changes nothing, even if the earlier pass has just moved a half to where it can be combined",
                key="FIXPOINT|standardize_aliquot_components|window", where=common.loc(fi, cmp_))


def _index_bounds(ctx):
    """An index loop `while i + c < len(x)` that reads x[i] ... x[i + k]
    without a further guard must have c == k: with c < k the last read runs
    off the end, with c > k the loop stops before the last pair / element has
    been examined (a half at the end of the chain is never passed back)."""
    from .c05 import lin
    n = 0
    for fi in ctx.repo.funcs.values():
        if not fi.module.name.endswith('tract.aliquot_parse'):
            continue
        for w in walk_local(fi.node):
            if not (isinstance(w, ast.While) and isinstance(w.test, ast.Compare) and len(w.test.ops) == 1
                    and isinstance(w.test.ops[0], (ast.Lt, ast.LtE))):
                continue
            l_, r_ = lin(w.test.left), lin(w.test.comparators[0])
            if l_ is None or r_ is None:
                continue
            d = l_ - r_
            idx = [k for k, v in d.terms.items() if v == 1 and not k.startswith('len(')]
            lens = [k for k, v in d.terms.items() if v == -1 and k.startswith('len(')]
            if len(idx) != 1 or len(lens) != 1 or len(d.terms) != 2:
                continue
            i_, seq = idx[0], lens[0][4:-1]
            c = d.const if isinstance(w.test.ops[0], ast.Lt) else d.const - 1
            ks = []
            for x in ast.walk(w):
                if isinstance(x, ast.Subscript) and norm(x.value) == seq and isinstance(x.ctx, ast.Load) \
                        and not isinstance(x.slice, ast.Slice):
                    li = lin(x.slice)
                    if li is None or li.terms != {i_: 1}:
                        continue
                    own = {t for _e, t, _p in literals([(w.test, True)])}
                    guarded = any(i_ in t and 'len(' in t and t not in own for _e, t, _p in facts_at(x))
                    if not guarded:
                        ks.append(li.const)
            if not ks:
                continue
            n += 1
            k = max(ks)
            construct = f"{fi.qualname}: `while {norm(w.test)}` visits every position it reads ({seq}[{i_}..{i_}+{k}])"
            ctx.check(c == k, 'CONSUME', construct, f"bound offset {c} == largest unguarded read offset {k}",
                      (f"the loop runs while {i_} + {c} < len({seq}) but reads up to {seq}[{i_} + {k}]: "
                       + ("the last read is past the end (IndexError)" if c < k else
                          f"it stops {c - k} position(s) early, so the last component(s) of the chain are never examined")),
                      key=f"CONSUME|{fi.qualname}|bound|{c}-{k}", where=common.loc(fi, w))
    if n == 0:
        ctx.undecided('CONSUME', 'index loops of aliquot_parse visit every position they read', 'no `while i + c < len(x)` loop recognised')


def _depth_table(ctx):
    """The subdivision depth parse_aliquot assigns to each component depends on
    (position i, chain length L, qq_depth_min m, kind of component,
    break_halves) only through comparisons, so the whole table is finite.
    Conditional constant propagation through the loop body yields the depth
    for every case with L, m <= 4; it must equal what the property asks for:
    a half / ALL is split once iff it is among the m largest components or
    break_halves is on, and when the chain is shorter than m its smallest
    component is split (m - L) further levels."""
    from .. import ccp
    fi = ctx.repo.func('aliquot_parse:parse_aliquot')
    loops = [n for n in walk_local(fi.node) if isinstance(n, ast.For) and isinstance(n.iter, ast.Call)
             and dotted(n.iter.func) == 'enumerate' and any(isinstance(x, ast.Name) and x.id == 'depth' and isinstance(x.ctx, ast.Store)
                                                             for x in ast.walk(n))]
    construct = 'parse_aliquot: depth of every component for all (position, length, min depth, kind, break_halves)'
    if len(loops) != 1:
        ctx.undecided('RANGE', construct, 'depth loop not recognised')
        return
    loop = loops[0]
    tg = loop.target
    if not (isinstance(tg, ast.Tuple) and len(tg.elts) == 2 and all(isinstance(e, ast.Name) for e in tg.elts)):
        ctx.undecided('RANGE', construct, 'loop target is not (i, comp)')
        return
    iname, cname = tg.elts[0].id, tg.elts[1].id
    start = 0
    for k in loop.iter.keywords:
        if k.arg == 'start' and isinstance(k.value, ast.Constant):
            start = k.value.value
    if len(loop.iter.args) > 1 and isinstance(loop.iter.args[1], ast.Constant):
        start = loop.iter.args[1].value
    seq = norm(loop.iter.args[0])
    stmts = [st for st in loop.body if any(isinstance(x, ast.Name) and x.id == 'depth' and isinstance(x.ctx, ast.Store)
                                          for x in ast.walk(st))]
    halves = ctx.fold.get('aliquot_parse', 'QQ_HALVES')
    quarters = ctx.fold.get('aliquot_parse', 'QQ_QUARTERS')
    base_env = {'QQ_HALVES': tuple(halves), 'QQ_QUARTERS': tuple(quarters)}
    for nm in ('_ALL', 'ALL'):
        try:
            base_env[nm] = ctx.fold.get('aliquot_parse', nm)
        except Exception:
            pass
    # helpers of the module that the loop body calls are propagated through
    for f2 in ctx.repo.funcs.values():
        if f2.module is fi.module and f2.outer is None and f2.cls is None and f2 is not fi:
            base_env.setdefault(f2.node.name, ccp.FuncRef(f2.node, base_env))
    n = bad = 0
    first_bad = None
    for L in range(1, 5):
        for m in range(1, 5):
            for pos in range(1, L + 1):
                for kind, comp in (('half', 'N'), ('quarter', 'NE'), ('ALL', base_env.get('_ALL', 'ALL'))):
                    if kind == 'ALL' and L != 1:
                        continue            # ALL only ever stands alone
                    for bh in (False, True):
                        env = dict(base_env)
                        env.update({iname: pos - 1 + start, cname: comp, 'qq_depth_min': m, 'break_halves': bh,
                                    seq: tuple(['x'] * L)})
                        try:
                            needed = {x.id for st in stmts for x in ast.walk(st) if isinstance(x, ast.Name)
                                      and isinstance(x.ctx, ast.Load)} - set(env)
                            if needed:
                                # locals computed before the loop (hoisted lengths etc.)
                                for st0 in fi.node.body:
                                    if st0 is loop:
                                        break
                                    if isinstance(st0, ast.Assign) and len(st0.targets) == 1 and isinstance(st0.targets[0], ast.Name) \
                                            and st0.targets[0].id in needed:
                                        try:
                                            env[st0.targets[0].id] = ccp.ev(st0.value, env)
                                        except ccp.Unsupported:
                                            pass
                            ccp.block(stmts, env, [0], 500)
                            got = env.get('depth')
                        except ccp.Unsupported as e:
                            ctx.undecided('RANGE', construct, f"not propagated ({e})")
                            return
                        n += 1
                        want = (1 if kind != 'quarter' and (pos <= m or bh) else 0) + ((m - L) if (pos == L and L < m) else 0)
                        if kind == 'ALL' and comp not in halves and not (pos <= m or bh) and isinstance(got, int) and got <= 0:
                            got = 0
                        if max(got if isinstance(got, int) else -99, 0) != want:
                            bad += 1
                            first_bad = first_bad or (L, m, pos, kind, bh, got, want)
    if bad:
        L, m, pos, kind, bh, got, want = first_bad
        ctx.violation('RANGE', construct,
                      f"{bad} of {n} cases differ from the depth the property requires; e.g. a chain of {L} component(s), "
                      f"qq_depth_min={m}, component #{pos} (a {kind}), break_halves={bh}: depth {got} instead of {want} "
                      f"(pieces come out shallower than the minimum / deeper than asked for / halves are left whole)",
                      key=f"RANGE|parse_aliquot|depth-table|{L}.{m}.{pos}.{kind}.{int(bh)}", where=common.loc(fi, loop))
    else:
        ctx.ok('RANGE', construct, f"{n} cases propagated, all as required")


def _subdivide(ctx):
    fi = ctx.repo.func('aliquot_parse:subdivide_aliquot')
    t = ' '.join(norm(s) for s in walk_local(fi.node) if isinstance(s, ast.stmt))
    ctx.shape('if depth <= 0' in t and "return [aliquot_component + '2']" in t, 'ORDER',
              "an undivided half is rendered '<letter>2'")
    ctx.shape('divided.append(list(QQ_SUBDIVIDE_DEFINITIONS[comp]))' in t
              and 'divided.append(list(QQ_QUARTERS))' in t, 'ORDER',
              'subdivision: first level from the definitions table, deeper levels into all four quarters')
    fr = ctx.repo.func('aliquot_parse:rebuild_aliquots')
    t = ' '.join(norm(s) for s in walk_local(fr.node) if isinstance(s, ast.stmt))
    ctx.shape("f'{deep}{shallow}'" in t.replace('"', "'") and 'for shallow in second_deepest' in t, 'ORDER',
              'rebuild: every deeper piece is prefixed to every shallower piece (cartesian)')


def pass_back_makes_progress(ctx, rule='FIXPOINT'):
    """pass_back_halves rewrites a pair (quarter at [i], half at [i+1]) and is
    called again until nothing changes.  The rewritten pair must not satisfy
    the trigger again: the one-letter component (a half) has to be written to
    [i] and the two-letter one (a quarter) to [i+1].  Written the other way
    round, every call re-creates a (quarter, half) pair: the fix-point loop of
    standardize_aliquot_components flips between two states for ever."""
    fi = ctx.repo.func('aliquot_parse:pass_back_halves')
    construct = 'pass_back_halves: the rewritten pair does not trigger the rewrite again'
    kinds = {}
    for a in walk_local(fi.node):
        if isinstance(a, ast.Assign) and isinstance(a.targets[0], ast.Name):
            v = a.value
            if isinstance(v, ast.JoinedStr) and len([x for x in v.values if isinstance(x, ast.FormattedValue)]) == 2:
                kinds.setdefault(a.targets[0].id, set()).add('quarter')
            elif isinstance(v, ast.Name):
                kinds.setdefault(a.targets[0].id, set()).add('letter')
    stores = {}
    for a in walk_local(fi.node):
        if isinstance(a, ast.Assign) and isinstance(a.targets[0], ast.Subscript) and isinstance(a.value, ast.Name):
            idx = norm(a.targets[0].slice).replace(' ', '')
            stores[idx] = (a.value.id, a)
    trig = [n for n in walk_local(fi.node) if isinstance(n, ast.If) and 'QQ_HALVES' in norm(n.test) and 'QQ_QUARTERS' in norm(n.test)]
    if not ({'i', 'i+1'} <= set(stores)) or not trig:
        ctx.undecided(rule, construct, 'write-back / trigger not recognised')
        return
    a_i, a_i1 = stores['i'][0], stores['i+1'][0]
    k_i, k_i1 = kinds.get(a_i, set()), kinds.get(a_i1, set())
    # which position does the trigger want to be the quarter?  (aq1 = [i], aq2 = [i+1])
    t = norm(trig[0].test)
    quarter_first = 'aq1 in QQ_QUARTERS' in t and 'aq2 in QQ_HALVES' in t
    if not quarter_first:
        ctx.undecided(rule, construct, f"trigger `{t[:60]}` not of the expected form")
        return
    ctx.tri(k_i == {'letter'} and k_i1 == {'quarter'}, k_i == {'quarter'} and k_i1 == {'letter'}, rule, construct,
            detail_bad=f"`{norm(stores['i'][1])}` / `{norm(stores['i+1'][1])}` put the two-letter component back in front of the "
                       f"one-letter one: the pair satisfies `{t[:60]}` again, so each call of pass_back_halves undoes the previous "
                       f"one and `while aliquot_components != aliquot_copy` never ends ('SE/4W/2' hangs the parse)",
            key=f"{rule}|pass_back_halves|no-progress", where=common.loc(fi, stores['i'][1]))


def _pass_back_linear(ctx):
    """pass_back_halves: when a quarter (N/S letter + E/W letter) swaps with the
    half that follows it, each of the three letters is used exactly once in
    the two rebuilt components, in both branches."""
    fi = ctx.repo.func('aliquot_parse:pass_back_halves')
    unpack = [n for n in walk_local(fi.node) if isinstance(n, ast.Assign) and isinstance(n.targets[0], ast.Tuple)
              and len(n.targets[0].elts) == 2 and isinstance(n.value, ast.Name)]
    if len(unpack) != 1:
        ctx.undecided('CONSUME', 'pass_back_halves: letters conserved', 'quarter split not recognised')
        return
    c1, c2 = [norm(e) for e in unpack[0].targets[0].elts]
    quarter = unpack[0].value.id
    branches = [n for n in walk_local(fi.node) if isinstance(n, ast.If) and n.orelse
                and any(isinstance(s, ast.Assign) for s in n.body)
                and {norm(s.targets[0]) for s in n.body if isinstance(s, ast.Assign)} ==
                {norm(s.targets[0]) for s in n.orelse if isinstance(s, ast.Assign)}
                and len({norm(s.targets[0]) for s in n.body if isinstance(s, ast.Assign)}) == 2]
    if len(branches) != 1:
        ctx.undecided('CONSUME', 'pass_back_halves: letters conserved', 'two-branch rebuild not recognised')
        return
    br = branches[0]
    half = [n.id for n in ast.walk(br.test) if isinstance(n, ast.Name) and n.id not in (c1, c2, quarter)
            and not n.id.isupper() and not n.id.startswith('QQ_')]
    if len(set(half)) != 1:
        ctx.undecided('CONSUME', 'pass_back_halves: letters conserved', 'half variable not recognised')
        return
    half = half[0]
    want = sorted([c1, c2, half])
    for label, body in (('N/S-half branch', br.body), ('E/W-half branch', br.orelse)):
        used = sorted(n.id for s_ in body if isinstance(s_, ast.Assign) for n in ast.walk(s_.value)
                      if isinstance(n, ast.Name) and n.id in (c1, c2, half, quarter))
        ctx.tri(used == want, used != want and set(used) <= set(want + [quarter]) and len(used) >= 2, 'CONSUME',
                f"pass_back_halves {label}: each of {want} is used exactly once",
                detail_bad=f"the rebuilt components use {used}: a direction letter is dropped / duplicated, so the "
                           f"piece ends up in the wrong place", key=f"CONSUME|pass_back_halves|linear|{label}",
                where=common.loc(fi, br))


def _snapshot_is_not_worked_on(ctx):
    """`while xs != snap: snap = xs.copy(); xs = f(xs)` compares the list
    with the snapshot taken before the pass.  Handing the SNAPSHOT to a helper
    that rewrites its argument in place (pass_back_halves) makes the helper's
    result and the snapshot the same object: the loop sees "nothing changed"
    after one pass and stops early."""
    from .c16 import _mutates_param
    fi = ctx.repo.func('aliquot_parse:standardize_aliquot_components')
    n = 0
    for lp in walk_local(fi.node):
        if not isinstance(lp, ast.While):
            continue
        snaps = {a.targets[0].id for a in ast.walk(lp) if isinstance(a, ast.Assign) and isinstance(a.targets[0], ast.Name)
                 and isinstance(a.value, ast.Call) and ((isinstance(a.value.func, ast.Attribute) and a.value.func.attr == 'copy')
                                                       or dotted(a.value.func) in ('list', 'copy.copy', 'copy.deepcopy', 'tuple'))}
        snaps &= {x.id for x in ast.walk(lp.test) if isinstance(x, ast.Name)}
        for c in ast.walk(lp):
            if not (isinstance(c, ast.Call) and isinstance(c.func, ast.Name)):
                continue
            for i, a in enumerate(c.args):
                if isinstance(a, ast.Name) and a.id in snaps:
                    tgt = ctx.repo.find_funcs(f"{fi.module.name}:{c.func.id}")
                    mut = any(_mutates_param(ctx, t, i) for t in tgt)
                    n += 1
                    ctx.tri(not mut, mut, 'FIXPOINT', f"{fi.qualname}: the snapshot `{a.id}` is only compared, never worked on",
                            detail_bad=f"`{norm(c)[:50]}` hands the snapshot `{a.id}` (the `.copy()` the loop condition compares with) to "
                                       f"{c.func.id}(), which rewrites its argument in place and returns it: after one pass the list and the "
                                       f"snapshot are the same object, the loop stops, and a chain that needs two passes ('NE/4NE/4S/2') is "
                                       f"left half-standardised", key=f"FIXPOINT|{fi.qualname}|snapshot-mutated|{c.func.id}",
                            where=common.loc(fi, c))
    if n == 0:
        ctx.ok('FIXPOINT', f"{fi.qualname}: the snapshot of the fixed-point loop is only compared", 'not handed to any helper')


def _blocks_reach_parse_aliquot_in_its_case(ctx):
    """TractParser hands text blocks to parse_aliquot(), whose tokenizer
    (single_aliquot_unpacker_regex) is case-SENSITIVE.  A block taken from the
    match of a case-INSENSITIVE pattern (`all_regex`: 'All', 'all') must be
    replaced by the canonical constant or upper-cased first - otherwise the
    tokenizer finds nothing and the whole section yields no pieces."""
    import re as _re
    from ..fold import RegexVal
    fi = ctx.repo.func('TractParser.parse')
    try:
        tok = ctx.fold.get('rgxlib.aliquots', 'single_aliquot_unpacker_regex')
    except AnalysisError:
        ctx.undecided('RX-FLAGS', 'blocks reach parse_aliquot in the case its tokenizer reads', 'tokenizer pattern not folded')
        return
    if tok.flags & _re.I:
        ctx.ok('RX-FLAGS', 'blocks reach parse_aliquot in the case its tokenizer reads', 'the tokenizer ignores case')
        return
    mvars = {}
    for a in walk_local(fi.node):
        if isinstance(a, ast.Assign) and len(a.targets) == 1 and isinstance(a.targets[0], ast.Name) and isinstance(a.value, ast.Call) \
                and isinstance(a.value.func, ast.Attribute) and a.value.func.attr in ('search', 'match', 'fullmatch'):
            try:
                rv = common.fold_in_func(ctx, fi, a.value.func.value)
            except AnalysisError:
                continue
            if isinstance(rv, RegexVal):
                mvars[a.targets[0].id] = rv
    # the list whose elements are handed to parse_aliquot() one by one
    fed = {lp.iter.id for lp in walk_local(fi.node) if isinstance(lp, ast.For) and isinstance(lp.iter, ast.Name)
           and isinstance(lp.target, ast.Name) and any(
               isinstance(x, ast.Call) and (dotted(x.func) or '').split('.')[-1] == 'parse_aliquot' and x.args
               and norm(x.args[0]) == lp.target.id for x in ast.walk(lp))}
    n = 0
    for c in walk_local(fi.node):
        if not (isinstance(c, ast.Call) and isinstance(c.func, ast.Attribute) and c.func.attr == 'append'
                and isinstance(c.func.value, ast.Name) and c.func.value.id in fed and c.args):
            continue
        pv = flow.provenance(fi.node, c.args[0])
        calls = {x.split('.')[-1] for x in flow.prov_calls(pv)}
        srcs = [rv for nm, rv in mvars.items() if any(
            (at[0] == 'sub' and at[1].startswith(nm + '[')) or (at[0] == 'call' and at[1] in (f"{nm}.group", f"{nm}.groupdict")) for at in pv)]
        n += 1
        insensitive = [rv for rv in srcs if rv.flags & _re.I]
        ctx.check(not insensitive or 'upper' in calls, 'RX-FLAGS',
                  f"TractParser.parse: `{norm(c)[:50]}` hands parse_aliquot text in the case its tokenizer reads",
                  detail_bad=f"`{norm(c)[:60]}` appends text matched by {insensitive[0].name if insensitive else ''} (IGNORECASE) as it was written; "
                             f"parse_aliquot's tokenizer is case-sensitive: 'All' / 'all' is not recognised there and the whole "
                             f"section comes back with no pieces (area 0)",
                  key=f"RX-FLAGS|TractParser.parse|block-case|{norm(c.args[0])[:30]}", where=common.loc(fi, c))
    return n
