"""
Run context, obligations, verdicts, evidence, known findings.
"""

import json
import os
import sys
import time

from . import AnalysisError, REPO_DEFAULT
from .srcmodel import Repo
from .fold import Folder

VERIF = os.path.dirname(os.path.dirname(os.path.abspath(__file__)))
KNOWN_PATH = os.path.join(VERIF, 'known_findings.json')


class Ctx:
    def __init__(self, prop, repo_root=REPO_DEFAULT, tier='quick', seed=0):
        self.prop = prop
        self.repo_root = repo_root
        self.tier = tier
        self.seed = seed
        self.repo = Repo(repo_root)
        self.fold = Folder(self.repo)
        self._install_resolver()
        self.obligations = []      # dicts
        self.violations = []       # dicts (subset of obligations)
        self.notes = {}
        self.assumptions = []
        self.consulted = set()
        self._caches = {}

    def _install_resolver(self):
        from . import flow
        repo = self.repo

        def owner(func_node):
            return getattr(func_node, '_func', None)

        def resolver(name, call, func_node):
            fi = owner(func_node)
            if fi is None:
                return None
            parts = name.split('.')
            cands = []
            if len(parts) == 1:
                f = fi
                while f is not None:            # nested helpers, innermost first
                    cands.append(f"{fi.module.name}:{f.qualname}.{parts[0]}")
                    f = f.outer
                cands.append(f"{fi.module.name}:{parts[0]}")
            elif len(parts) == 2 and parts[0] in ('self', 'cls'):
                top = fi
                while top.outer is not None:
                    top = top.outer
                if top.cls is not None:
                    m = repo.find_method(top.cls, parts[1])
                    if m is not None:
                        return m.node
            if len(parts) == 2 and parts[0][:1].isupper():
                # ClassName.method(...) (static / class method called through the class)
                for ci in repo.classes.values():
                    if ci.name == parts[0]:
                        m = repo.find_method(ci, parts[1])
                        if m is not None:
                            return m.node
            for c in cands:
                if c in repo.funcs:
                    return repo.funcs[c].node
            # imported module-level function of the package
            if len(parts) == 1:
                hits = [f for f in repo.funcs.values() if f.qualname == parts[0]]
                if len(hits) == 1:
                    return hits[0].node
            return None

        def opaque(name):
            last = name.split('.')[-1]
            return any(f.node.name == last for f in repo.funcs.values())
        flow.RESOLVER = resolver
        flow.OPAQUE = opaque

    # -- recording ------------------------------------------------------
    def ok(self, rule, construct, detail=''):
        self.obligations.append({'rule': rule, 'construct': construct,
                                 'verdict': 'ok', 'detail': detail})

    def violation(self, rule, construct, detail, key=None, where=None,
                  witness=None):
        """
        A rule positively established a bad construct.  ``key`` is the stable
        finding key (rule | construct | discriminating fact) used to match
        known_findings.json; never contains a line number.
        """
        if key is None:
            key = f"{rule}|{construct}"
        rec = {'rule': rule, 'construct': construct, 'verdict': 'violation',
               'detail': detail, 'key': key}
        if where:
            rec['where'] = where
        if witness:
            rec['witness'] = witness
        self.obligations.append(rec)
        self.violations.append(rec)

    def check(self, cond, rule, construct, detail_ok='', detail_bad='',
              key=None, where=None, witness=None):
        if cond:
            self.ok(rule, construct, detail_ok)
        else:
            self.violation(rule, construct, detail_bad or detail_ok, key,
                           where, witness)
        return bool(cond)

    def undecided(self, rule, construct, why=''):
        """The construct is there but its shape is not one the rule
        understands: neither discharged nor a violation (no positive evidence
        of a defect).  Counted and listed in the evidence."""
        self.obligations.append({'rule': rule, 'construct': construct,
                                 'verdict': 'undecided', 'detail': why})

    def shape(self, cond, rule, construct, detail_ok='', why=''):
        """A recognised-good shape discharges; anything else is undecided
        (use check()/violation() only for positive evidence of a defect)."""
        if cond:
            self.ok(rule, construct, detail_ok)
        else:
            self.undecided(rule, construct, why or 'shape not recognised')
        return bool(cond)

    def tri(self, good, bad, rule, construct, detail_ok='', detail_bad='',
            key=None, where=None, witness=None, why=''):
        """Tri-state: positive evidence of a defect -> violation; recognised
        good shape -> ok; anything else -> undecided."""
        if bad:
            self.violation(rule, construct, detail_bad, key, where, witness)
            return False
        if good:
            self.ok(rule, construct, detail_ok)
            return True
        self.undecided(rule, construct, why or 'shape not recognised')
        return None

    def attempt(self, fn, *args, rule='SHAPE', construct=None, **kw):
        """Run one group of rule instances.  A *vanished anchor* (function,
        class, module, table) stays an AnalysisError (exit 2); a construct
        that is present but whose shape the rule does not understand is
        recorded as undecided and the run goes on."""
        self._attempt_depth = getattr(self, '_attempt_depth', 0) + 1
        try:
            return self._attempt(fn, rule, construct, args, kw)
        finally:
            self._attempt_depth -= 1

    def _attempt(self, fn, rule, construct, args, kw):
        try:
            return fn(self, *args, **kw)
        except AnalysisError as e:
            msg = str(e)
            if msg.startswith(('module ', 'fold: no module', 'no package')):
                raise
            if msg.startswith(('function anchor', 'class anchor')) or 'is not defined' in msg:
                # a vanished PRIMARY anchor (named by the property itself) is
                # fatal; helpers and tables the rules found on their own may
                # legitimately be renamed / restructured: undecided
                if self._is_primary(msg):
                    raise
            self.undecided(rule, construct or getattr(fn, '__name__', 'rule group'), msg)
            return None
        except (IndexError, KeyError, AttributeError, TypeError, ValueError, StopIteration, RecursionError) as e:
            # the rule met a shape of code it was not written for: it decides nothing (it is not a
            # finding about the repository); kept visible in the evidence and the summary line
            import traceback as _tb
            where = _tb.extract_tb(e.__traceback__)[-1]
            msg = f"internal: {type(e).__name__}: {e} ({where.filename.split('/')[-1]}:{where.lineno})"
            self.notes.setdefault('internal_errors', []).append(f"{getattr(fn, '__name__', 'rule group')}: {msg}")
            self.undecided(rule, construct or getattr(fn, '__name__', 'rule group'), msg)
            return None

    def _primary_names(self):
        if getattr(self, '_primary', None) is None:
            import json as _json, os as _os, re as _re
            names = set()
            here = _os.path.dirname(_os.path.dirname(_os.path.abspath(__file__)))
            try:
                for line in open(_os.path.join(here, 'properties.jsonl')):
                    d = _json.loads(line)
                    if d.get('id') != self.prop:
                        continue
                    for m in d.get('anchors', {}).get('mechanism', []):
                        for piece in _re.split(r'[,]\s*', m.get('where', '')):
                            if ':' in piece:
                                for nm in _re.split(r'[/\s]+', piece.split(':', 1)[1]):
                                    nm = nm.strip()
                                    if nm:
                                        names.add(nm)
                                        names.add(nm.split('.')[-1])
            except OSError:
                pass
            self._primary = names
        return self._primary

    def _is_primary(self, msg):
        import re as _re
        m = _re.search(r"anchor '([^']+)'", msg) or _re.search(r"fold: (\S+) is not defined", msg)
        if not m:
            return True
        spec = m.group(1).split(':')[-1]
        last = spec.split('.')[-1]
        prim = self._primary_names()
        return spec in prim or last in prim

    def floor(self, what, found, minimum):
        """Anchor floor: fewer instances than confirmed by hand means the
        analysis lost its anchors (exit 2), never a pass."""
        if 0 < found < minimum:
            # some instances are still there: a refactor merged / removed sites that were
            # confirmed by hand; the rule is not vacuous, what it no longer sees is undecided.
            # Inside a rule group the whole group gives up (what follows usually needs the full
            # set); at the top level of a check the run goes on.
            if getattr(self, '_attempt_depth', 0) > 0:
                raise AnalysisError(f"anchor floor: {what}: found {found}, expected >= {minimum}")
            self.undecided('FLOOR', what, f"found {found} instance(s), {minimum} were confirmed on the pinned tree")
            self.notes.setdefault('floors', {})[what] = {'found': found, 'min': minimum}
            return False
        if found < minimum:
            raise AnalysisError(
                f"anchor floor: {what}: found {found}, expected >= {minimum}")
        self.notes.setdefault('floors', {})[what] = {'found': found, 'min': minimum}
        return True

    def assume(self, text):
        if text not in self.assumptions:
            self.assumptions.append(text)

    def consult(self, *relpaths):
        self.consulted.update(relpaths)

    def cache(self, key, fn):
        if key not in self._caches:
            self._caches[key] = fn()
        return self._caches[key]


def load_known():
    if not os.path.exists(KNOWN_PATH):
        return {'known': [], 'fixed': []}
    with open(KNOWN_PATH, encoding='utf-8') as fh:
        return json.load(fh)


def run_property(prop, check_fn, meta, repo_root=REPO_DEFAULT, tier='quick',
                 seed=0, evidence_dir=None, quiet=False):
    """
    Runs one property's rules, prints the verdict lines, writes evidence,
    returns the exit code (0 held / 1 violation / 2 analysis error).
    """
    t0 = time.time()
    if evidence_dir is None:
        evidence_dir = os.path.join(VERIF, 'evidence')
    os.makedirs(evidence_dir, exist_ok=True)
    ev_path = os.path.join(evidence_dir, f"{prop}.json")
    rdir0 = os.path.join(evidence_dir, 'replay')
    if os.path.isdir(rdir0):
        for fn in os.listdir(rdir0):
            if fn.startswith(prop + '.'):
                os.remove(os.path.join(rdir0, fn))
    ctx = None
    try:
        ctx = Ctx(prop, repo_root, tier, seed)
        check_fn(ctx)
        if not ctx.obligations:
            raise AnalysisError("no obligation was evaluated (vacuous run)")
    except AnalysisError as e:
        print(f"ANALYSIS-ERROR property={prop} {e}")
        _write_evidence(ev_path, prop, tier, seed, meta, ctx, t0, error=str(e))
        return 2
    except Exception as e:     # a traceback must not look like a violation
        import traceback
        tb = traceback.format_exc()
        sys.stderr.write(tb)
        print(f"ANALYSIS-ERROR property={prop} internal: {type(e).__name__}: {e}")
        _write_evidence(ev_path, prop, tier, seed, meta, ctx, t0,
                        error=f"{type(e).__name__}: {e}")
        return 2

    known = load_known()
    known_keys = {k['key']: k for k in known.get('known', [])
                  if k.get('property') == prop}
    new = []
    matched = []
    for v in ctx.violations:
        if v['key'] in known_keys:
            v['verdict'] = 'known-finding'
            matched.append(v)
        else:
            new.append(v)
    for v in matched:
        what = known_keys[v['key']].get('what', v['detail'])
        print(f"KNOWN-FINDING: property={prop} {v['rule']} {v['construct']}: {what}")
    rc = 0
    if new:
        rc = 1
        rdir = os.path.join(evidence_dir, 'replay')
        os.makedirs(rdir, exist_ok=True)
        for i, v in enumerate(new):
            rp = os.path.join(rdir, f"{prop}.{i}.json")
            with open(rp, 'w', encoding='utf-8') as fh:
                json.dump({'property': prop, 'repo': repo_root, **v}, fh,
                          indent=1, ensure_ascii=False)
            print(f"VIOLATION property={prop} replay={rp}")
            print(f"  rule={v['rule']} construct={v['construct']}"
                  + (f" at {v['where']}" if v.get('where') else ''))
            print(f"  {v['detail']}")
            if v.get('witness'):
                print(f"  witness: {v['witness']}")
    _write_evidence(ev_path, prop, tier, seed, meta, ctx, t0,
                    n_new=len(new), n_known=len(matched))
    if not quiet:
        n_ok = sum(1 for o in ctx.obligations if o['verdict'] == 'ok')
        n_und = sum(1 for o in ctx.obligations if o['verdict'] == 'undecided')
        if n_und:
            print(f"{prop}: {n_und} rule instance(s) undecided (construct present, shape not recognised; "
                  f"no positive evidence of a defect):")
            for o in ctx.obligations:
                if o['verdict'] == 'undecided':
                    print(f"  undecided {o['rule']} {o['construct']}: {o['detail'][:120]}")
        print(f"{prop}: {len(ctx.obligations)} obligations, {n_ok} discharged, "
              f"{len(matched)} known findings, {len(new)} violations"
              f"{', ' + str(len(ctx.notes.get('internal_errors', []))) + ' rule group(s) gave up on an unexpected shape' if ctx.notes.get('internal_errors') else ''} "
              f"[{tier}, {time.time() - t0:.2f}s, "
              f"{ctx.repo.stats()['files']} files / {ctx.repo.stats()['functions']} functions parsed, "
              f"0 repo modules imported]")
    return rc


def _write_evidence(path, prop, tier, seed, meta, ctx, t0, error=None,
                    n_new=0, n_known=0):
    obligations = ctx.obligations if ctx else []
    distinct = {(o['rule'], o['construct']) for o in obligations}
    samples = []
    seen_rules = set()
    for o in obligations:           # one sample per rule first, then fill up
        if o['rule'] not in seen_rules:
            seen_rules.add(o['rule'])
            samples.append(_sample(o))
    for o in obligations:
        if len(samples) >= 40:
            break
        if o['verdict'] != 'ok' and _sample(o) not in samples:
            samples.append(_sample(o))
    n_ok = sum(1 for o in obligations if o['verdict'] == 'ok')
    cov = {
        'explanation': meta.get('explanation', ''),
        'evaluations': len(obligations),
        'distinct_nontrivial': len(distinct),
        'rule': ("each evaluation is one rule instance (rule, construct) "
                 "decided on the current source; distinct = distinct "
                 "(rule, construct) pairs; an instance is non-trivial because "
                 "every rule is only instantiated on constructs it found in "
                 "the source (anchor floors turn a vanished construct into "
                 "exit 2)"),
        'obligations': len(obligations),
        'discharged': n_ok,
        'undecided': sum(1 for o in obligations if o['verdict'] == 'undecided'),
        'known_findings': n_known,
        'samples': samples or [{'note': 'no obligation evaluated'}],
        'exhaustive': True,
        'rules': sorted(seen_rules),
        'checker_cmd': f"/venv/bin/python -m vstatic {prop} --tier {tier}",
        'trusted_base': ['CPython ast / re._parser (parsing only)',
                         'vstatic engine (srcmodel, fold, rx, flow)'],
        'repo_modules_imported': 0,
    }
    if ctx:
        cov['source'] = ctx.repo.stats()
        cov['files_consulted'] = ctx.repo.digests(
            only=sorted(ctx.consulted) or None)
        cov.update({k: v for k, v in ctx.notes.items()})
    if error:
        cov['analysis_error'] = error
    ev = {
        'property_id': prop,
        'tier': tier if tier in ('quick', 'thorough') else 'quick',
        'seed': int(seed),
        'level': 'other',
        'coverage': cov,
        'assumptions': (ctx.assumptions if ctx else []) + meta.get('assumptions', []),
        'wall_s': round(time.time() - t0, 3),
        'violations': n_new,
    }
    with open(path, 'w', encoding='utf-8') as fh:
        json.dump(ev, fh, indent=1, ensure_ascii=False)


def _sample(o):
    d = {'rule': o['rule'], 'construct': o['construct'], 'verdict': o['verdict']}
    if o.get('detail'):
        d['detail'] = o['detail'][:300]
    if o.get('witness'):
        d['witness'] = o['witness']
    return d
