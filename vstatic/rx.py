"""
Regex toolkit.  Input: a folded (pattern, flags) pair, parsed with
``re._parser.parse`` (parsing only -- the ``re`` engine is never asked to
match anything on behalf of a verdict).

* concrete language membership of constant strings (exact set-of-positions
  semantics incl. look-around and anchors) ......... ``Lang``
* group facts (optional / inside unbounded repeat / digit-only ...) ``groups``
* position (Glushkov) automaton with follow multiplicities and the
  ambiguity analysis (EDA / IDA degree / exploitability) ...... ``Automaton``
"""

import re._parser as sre_parse
import re._constants as C
import re as _re
import unicodedata

from . import AnalysisError

MAXREPEAT = C.MAXREPEAT
POSSESSIVE = getattr(C, 'POSSESSIVE_REPEAT', None)
ATOMIC = getattr(C, 'ATOMIC_GROUP', None)
REPEATS = tuple(x for x in (C.MAX_REPEAT, C.MIN_REPEAT, POSSESSIVE) if x is not None)

# extra case equivalences honoured by sre under IGNORECASE|UNICODE
_EXTRA_CASE = {
    'ſ': 's', 'K': 'k', 'İ': 'i', 'ı': 'i',
}


def parse(pattern, flags=0):
    try:
        return sre_parse.parse(pattern, flags)
    except Exception as e:          # re.error and friends
        raise AnalysisError(f"regex does not parse: {e}")


# ----------------------------------------------------------------------
# character predicates

def _category(cat, ch):
    if cat is C.CATEGORY_DIGIT:
        return ch.isdecimal()
    if cat is C.CATEGORY_NOT_DIGIT:
        return not ch.isdecimal()
    if cat is C.CATEGORY_SPACE:
        return ch.isspace()
    if cat is C.CATEGORY_NOT_SPACE:
        return not ch.isspace()
    if cat is C.CATEGORY_WORD:
        return ch.isalnum() or ch == '_'
    if cat is C.CATEGORY_NOT_WORD:
        return not (ch.isalnum() or ch == '_')
    raise AnalysisError(f"regex category {cat} not modelled")


def _variants(ch, ignorecase):
    if not ignorecase:
        return (ch,)
    out = {ch, ch.lower(), ch.upper()}
    if ch in _EXTRA_CASE:
        out.add(_EXTRA_CASE[ch])
        out.add(_EXTRA_CASE[ch].upper())
    out = {c for c in out if len(c) == 1}
    return tuple(out)


def _in_set(items, ch):
    neg = False
    hit = False
    for op, av in items:
        if op is C.NEGATE:
            neg = True
        elif op is C.LITERAL:
            hit = hit or ord(ch) == av
        elif op is C.RANGE:
            hit = hit or av[0] <= ord(ch) <= av[1]
        elif op is C.CATEGORY:
            hit = hit or _category(av, ch)
        else:
            raise AnalysisError(f"regex set item {op} not modelled")
    return hit != neg


def char_matches(op, av, ch, flags):
    """Does the single-character item (op, av) match character ch?"""
    ic = bool(flags & _re.I)
    if op is C.ANY:
        return ch != '\n' or bool(flags & _re.S)
    if op is C.LITERAL:
        return any(ord(v) == av for v in _variants(ch, ic)) or \
            (ic and any(chr(av).lower() == v.lower() for v in _variants(ch, ic)))
    if op is C.NOT_LITERAL:
        return not char_matches(C.LITERAL, av, ch, flags)
    if op is C.IN:
        neg = any(o is C.NEGATE for o, _ in av)
        pos_items = [(o, a) for o, a in av if o is not C.NEGATE]
        hit = any(_in_set(pos_items, v) for v in _variants(ch, ic))
        if ic and not hit:
            # literals in the set are matched case-insensitively
            for o, a in pos_items:
                if o is C.LITERAL and chr(a).lower() == ch.lower():
                    hit = True
                elif o is C.RANGE:
                    for v in _variants(ch, True):
                        if a[0] <= ord(v) <= a[1]:
                            hit = True
        return hit != neg
    raise AnalysisError(f"not a single-char item: {op}")


SINGLE = (C.ANY, C.LITERAL, C.NOT_LITERAL, C.IN)


def _is_word(ch):
    return ch.isalnum() or ch == '_'


# ----------------------------------------------------------------------
# concrete membership

class Lang:
    """Exact language-level semantics of a pattern on constant strings."""

    def __init__(self, pattern, flags=0):
        self.pattern = pattern
        self.flags = flags
        self.tree = parse(pattern, flags)
        self.flags = self.tree.state.flags | flags
        self.groupindex = dict(self.tree.state.groupdict)

    def ends(self, s, pos=0, endpos=None):
        """Set of positions e such that s[pos:e] is matched (prefix match)."""
        if endpos is None:
            endpos = len(s)
        return self._seq(list(self.tree), 0, s, pos, endpos, {})

    def fullmatch(self, s):
        return len(s) in self.ends(s, 0)

    def matches_at(self, s, pos):
        return bool(self.ends(s, pos))

    def search(self, s):
        return any(self.ends(s, i) for i in range(len(s) + 1))

    def search_spans(self, s):
        """All (i, j) with s[i:j] in L (language level, no priorities)."""
        out = []
        for i in range(len(s) + 1):
            for j in sorted(self.ends(s, i)):
                out.append((i, j))
        return out

    # -- internals ------------------------------------------------------
    def _seq(self, items, idx, s, pos, endpos, memo):
        key = (id(items), idx, pos) if False else None
        cur = {pos}
        for k in range(idx, len(items)):
            nxt = set()
            for p in cur:
                nxt |= self._item(items[k], s, p, endpos)
            cur = nxt
            if not cur:
                break
        return cur

    def _sub(self, sub, s, pos, endpos):
        return self._seq(list(sub), 0, s, pos, endpos, {})

    def _item(self, item, s, pos, endpos):
        op, av = item
        fl = self.flags
        if op in SINGLE:
            if pos < endpos and char_matches(op, av, s[pos], fl):
                return {pos + 1}
            return set()
        if op is C.SUBPATTERN:
            group, add, delf, sub = av
            if add or delf:
                # scoped flags, e.g. (?-i:...): evaluate the body under the changed flags
                saved = self.flags
                self.flags = (self.flags | add) & ~delf
                try:
                    return self._sub(sub, s, pos, endpos)
                finally:
                    self.flags = saved
            return self._sub(sub, s, pos, endpos)
        if op is C.BRANCH:
            out = set()
            for alt in av[1]:
                out |= self._sub(alt, s, pos, endpos)
            return out
        if (op is POSSESSIVE or op is ATOMIC) and op is not None:
            # committed constructs keep only the highest-priority way to match
            e = next(self._ordered_item(item, s, pos, endpos), None)
            return set() if e is None else {e}
        if op in (C.MAX_REPEAT, C.MIN_REPEAT):
            lo, hi, sub = av
            cur = {pos}
            out = set()
            seen = set()
            n = 0
            if lo == 0:
                out |= cur
            while cur and (hi == MAXREPEAT or n < hi):
                nxt = set()
                for p in cur:
                    nxt |= self._sub(sub, s, p, endpos)
                n += 1
                if n >= lo:
                    new = nxt - out
                    out |= nxt
                    if n > lo and not new and nxt <= seen:
                        break
                if nxt <= seen and n >= lo:
                    break
                seen |= nxt
                cur = nxt
            return out
        if op is C.AT:
            ok = False
            if av in (C.AT_BEGINNING_STRING,):
                ok = pos == 0
            elif av is C.AT_BEGINNING:
                ok = pos == 0 or (bool(fl & _re.M) and s[pos - 1] == '\n')
            elif av is C.AT_END_STRING:
                ok = pos == endpos
            elif av is C.AT_END:
                ok = pos == endpos or (pos == endpos - 1 and s[pos] == '\n') \
                    or (bool(fl & _re.M) and pos < endpos and s[pos] == '\n')
            elif av in (C.AT_BOUNDARY, C.AT_NON_BOUNDARY):
                a = pos > 0 and _is_word(s[pos - 1])
                b = pos < endpos and _is_word(s[pos])
                ok = (a != b) if av is C.AT_BOUNDARY else (a == b)
            else:
                raise AnalysisError(f"anchor {av} not modelled")
            return {pos} if ok else set()
        if op in (C.ASSERT, C.ASSERT_NOT):
            direction, sub = av
            if direction >= 0:
                found = bool(self._sub(sub, s, pos, endpos))
            else:
                # (the body may itself contain zero-width context tests such
                # as \b, so it is evaluated against the whole string and
                # must end exactly at pos)
                found = any(pos in self._sub(sub, s, j, endpos)
                            for j in range(pos, max(-1, pos - 64), -1))
            if op is C.ASSERT_NOT:
                found = not found
            return {pos} if found else set()
        raise AnalysisError(f"regex construct {op} not modelled")

    def first_end(self, s, pos):
        """end of the match the engine would report at ``pos`` (priority order), or None"""
        return next(self._ordered(list(self.tree), 0, s, pos, len(s)), None)

    def sub(self, repl, s):
        """re.sub(pattern, repl, s) for a constant replacement without group references"""
        if '\\' in repl:
            raise AnalysisError("replacement with group references is not modelled")
        out, i, n = [], 0, len(s)
        while i <= n:
            e = self.first_end(s, i)
            if e is None or (e == i and i == n and out and False):
                if i < n:
                    out.append(s[i])
                i += 1
                continue
            out.append(repl)
            if e == i:
                if i < n:
                    out.append(s[i])
                i += 1
            else:
                i = e
        return ''.join(out)

    # -- priority-ordered (backtracking) semantics, needed only to know WHICH
    # match a possessive quantifier / atomic group commits to ------------
    def _ordered(self, items, idx, s, pos, endpos):
        if idx == len(items):
            yield pos
            return
        for e in self._ordered_item(items[idx], s, pos, endpos):
            yield from self._ordered(items, idx + 1, s, e, endpos)

    def _ordered_item(self, item, s, pos, endpos):
        op, av = item
        if op is C.SUBPATTERN:
            if av[1] or av[2]:
                # (a generator: the flags must be switched around every resumption, so the
                #  ends are collected eagerly under the scoped flags)
                saved = self.flags
                self.flags = (self.flags | av[1]) & ~av[2]
                try:
                    ends = list(self._ordered(list(av[3]), 0, s, pos, endpos))
                finally:
                    self.flags = saved
                yield from ends
                return
            yield from self._ordered(list(av[3]), 0, s, pos, endpos)
        elif op is C.BRANCH:
            for alt in av[1]:
                yield from self._ordered(list(alt), 0, s, pos, endpos)
        elif op in REPEATS:
            lo, hi, sub = av
            body = list(sub)

            def rep(n, p, depth=0):
                if depth > 2000:
                    raise AnalysisError("repeat too deep for the ordered matcher")
                more = hi == MAXREPEAT or n < hi
                if op is C.MIN_REPEAT and n >= lo:
                    yield p
                if more:
                    for e in self._ordered(body, 0, s, p, endpos):
                        if e == p and n >= lo:
                            continue        # an empty iteration adds nothing
                        yield from rep(n + 1, e, depth + 1)
                if op is not C.MIN_REPEAT and n >= lo:
                    yield p
            if op is POSSESSIVE:
                e = next(rep(0, pos), None)
                if e is not None:
                    yield e
            else:
                yield from rep(0, pos)
        elif op is ATOMIC and op is not None:
            e = next(self._ordered(list(av), 0, s, pos, endpos), None)
            if e is not None:
                yield e
        else:
            # single characters and zero-width tests have one outcome
            for e in sorted(self._item(item, s, pos, endpos)):
                yield e


# ----------------------------------------------------------------------
# canonical rendering of sre trees (for finding keys / evidence)

def show(sub, limit=120):
    def lit(c):
        ch = chr(c)
        if ch.isalnum() or ch in '¼½§–—_ ':
            return ch
        if ch == '\n':
            return '\\n'
        if ch == '\t':
            return '\\t'
        return '\\' + ch

    def cat(c):
        return {C.CATEGORY_DIGIT: '\\d', C.CATEGORY_NOT_DIGIT: '\\D',
                C.CATEGORY_SPACE: '\\s', C.CATEGORY_NOT_SPACE: '\\S',
                C.CATEGORY_WORD: '\\w', C.CATEGORY_NOT_WORD: '\\W'}.get(c, '?')

    def one(item):
        op, av = item
        if op is C.LITERAL:
            return lit(av)
        if op is C.NOT_LITERAL:
            return f"[^{lit(av)}]"
        if op is C.ANY:
            return '.'
        if op is C.IN:
            parts = []
            for o, a in av:
                if o is C.NEGATE:
                    parts.append('^')
                elif o is C.LITERAL:
                    parts.append(lit(a))
                elif o is C.RANGE:
                    parts.append(f"{lit(a[0])}-{lit(a[1])}")
                elif o is C.CATEGORY:
                    parts.append(cat(a))
            if len(parts) == 1 and parts[0].startswith('\\') and len(parts[0]) == 2 and parts[0][1] in 'dDsSwW':
                return parts[0]
            return '[' + ''.join(parts) + ']'
        if op is C.SUBPATTERN:
            return '(' + seq(av[3]) + ')'
        if op is C.BRANCH:
            return '|'.join(seq(a) for a in av[1])
        if op in REPEATS:
            lo, hi, sub2 = av
            body = seq(sub2)
            if len(sub2) != 1 or sub2[0][0] is C.BRANCH:
                body = f"(?:{body})"
            if (lo, hi) == (0, MAXREPEAT):
                q = '*'
            elif (lo, hi) == (1, MAXREPEAT):
                q = '+'
            elif (lo, hi) == (0, 1):
                q = '?'
            elif hi == MAXREPEAT:
                q = f"{{{lo},}}"
            elif lo == hi:
                q = f"{{{lo}}}"
            else:
                q = f"{{{lo},{hi}}}"
            return body + q + ('?' if op is C.MIN_REPEAT else '+' if op is POSSESSIVE else '')
        if op is C.AT:
            return {C.AT_BEGINNING: '^', C.AT_END: '$', C.AT_BOUNDARY: '\\b',
                    C.AT_NON_BOUNDARY: '\\B', C.AT_BEGINNING_STRING: '\\A',
                    C.AT_END_STRING: '\\Z'}.get(av, '?')
        if op in (C.ASSERT, C.ASSERT_NOT):
            d, sub2 = av
            m = {(C.ASSERT, 1): '(?=', (C.ASSERT, -1): '(?<=',
                 (C.ASSERT_NOT, 1): '(?!', (C.ASSERT_NOT, -1): '(?<!'}[(op, 1 if d >= 0 else -1)]
            return m + seq(sub2) + ')'
        return f"<{op}>"

    def seq(sub2):
        return ''.join(one(i) for i in sub2)

    out = seq(sub)
    if len(out) > limit:
        out = out[:limit - 3] + '...'
    return out


# ----------------------------------------------------------------------
# group facts

class GroupFact:
    def __init__(self, index, name):
        self.index = index
        self.name = name
        self.optional = False          # may be None after a successful match
        self.in_unbounded = False      # inside an unbounded repeat
        self.repeat_chain = []         # enclosing repeats (lo, hi, node) outer->inner
        self.node = None               # the sub-pattern
        self.digit_only = False
        self.min_len = 0
        self.max_len = 0

    def __repr__(self):
        return (f"<group {self.name or self.index} optional={self.optional} "
                f"unbounded={self.in_unbounded} digits={self.digit_only}>")


def _minmax(sub):
    lo = hi = 0
    for op, av in sub:
        if op in SINGLE:
            a = b = 1
        elif op is C.SUBPATTERN:
            a, b = _minmax(av[3])
        elif op is C.BRANCH:
            mm = [_minmax(x) for x in av[1]]
            a, b = min(m[0] for m in mm), max(m[1] for m in mm)
        elif op in REPEATS:
            l2, h2, s2 = av
            a, b = _minmax(s2)
            a = a * l2
            b = MAXREPEAT if (h2 == MAXREPEAT and b > 0) else b * h2
        else:
            a = b = 0
        lo += a
        hi = MAXREPEAT if (hi == MAXREPEAT or b == MAXREPEAT) else hi + b
    return lo, min(hi, MAXREPEAT)


def _digit_only(sub):
    """Every consuming leaf matches decimal digits only (ASCII or \\d)."""
    for op, av in sub:
        if op is C.LITERAL:
            if not chr(av).isdecimal():
                return False
        elif op is C.IN:
            for o, a in av:
                if o is C.NEGATE:
                    return False
                if o is C.LITERAL and not chr(a).isdecimal():
                    return False
                if o is C.RANGE and not (chr(a[0]).isdecimal() and chr(a[1]).isdecimal() and a[1] - a[0] <= 9):
                    return False
                if o is C.CATEGORY and a is not C.CATEGORY_DIGIT:
                    return False
        elif op in (C.ANY, C.NOT_LITERAL):
            return False
        elif op is C.SUBPATTERN:
            if not _digit_only(av[3]):
                return False
        elif op is C.BRANCH:
            if not all(_digit_only(x) for x in av[1]):
                return False
        elif op in REPEATS:
            if not _digit_only(av[2]):
                return False
        elif op in (C.AT, C.ASSERT, C.ASSERT_NOT):
            continue
        else:
            return False
    return True


def groups(pattern, flags=0):
    """name-or-index -> GroupFact for every capturing group."""
    tree = parse(pattern, flags)
    names = {v: k for k, v in tree.state.groupdict.items()}
    facts = {}

    def walk(sub, optional, chain):
        for op, av in sub:
            if op is C.SUBPATTERN:
                g, add, delf, s2 = av
                if g is not None:
                    f = GroupFact(g, names.get(g))
                    f.optional = optional
                    f.repeat_chain = list(chain)
                    f.in_unbounded = any(h == MAXREPEAT for _, h in chain)
                    f.node = s2
                    f.digit_only = _digit_only(s2)
                    f.min_len, f.max_len = _minmax(s2)
                    facts[g] = f
                    if f.name:
                        facts[f.name] = f
                walk(s2, optional, chain)
            elif op is C.BRANCH:
                for alt in av[1]:
                    walk(alt, True, chain)
            elif op in REPEATS:
                lo, hi, s2 = av
                walk(s2, optional or lo == 0, chain + [(lo, hi)])
            elif op in (C.ASSERT, C.ASSERT_NOT):
                walk(av[1], True, chain)
    walk(tree, False, [])
    return facts


def literal_alternatives(sub):
    """If sub is a pure alternation/sequence of literals, the finite set of
    strings it denotes (case as written); else None."""
    def seq(s):
        outs = ['']
        for op, av in s:
            if op is C.LITERAL:
                outs = [o + chr(av) for o in outs]
            elif op is C.SUBPATTERN:
                r = seq(av[3])
                if r is None:
                    return None
                outs = [o + x for o in outs for x in r]
            elif op is C.BRANCH:
                alts = []
                for a in av[1]:
                    r = seq(a)
                    if r is None:
                        return None
                    alts.extend(r)
                outs = [o + x for o in outs for x in alts]
            elif op is C.IN:
                chars = []
                for o, a in av:
                    if o is C.LITERAL:
                        chars.append(chr(a))
                    else:
                        return None
                outs = [o + c for o in outs for c in chars]
            elif op in REPEATS:
                lo, hi, s2 = av
                if hi == MAXREPEAT or hi > 3:
                    return None
                r = seq(s2)
                if r is None:
                    return None
                acc = []
                for n in range(lo, hi + 1):
                    cur = ['']
                    for _ in range(n):
                        cur = [c + x for c in cur for x in r]
                    acc.extend(cur)
                outs = [o + x for o in outs for x in acc]
            elif op in (C.AT, C.ASSERT, C.ASSERT_NOT):
                continue
            else:
                return None
            if len(outs) > 5000:
                return None
        return outs
    return seq(sub)


# ----------------------------------------------------------------------
# position automaton + ambiguity

EOS = '\x00EOS'

BASE_ALPHABET = (
    [chr(c) for c in range(32, 127)] + ['\t', '\n', '\r', '\x0b', '\x0c']
    + list('–—½¼§°') + ['é', 'Σ', '٣', ' ', '☺', 'ſ', 'K']
)


class Automaton:
    """
    Glushkov position automaton of a pattern over a finite representative
    alphabet.  Bounded repeats are unrolled (nested form, so that a{0,2} is
    unambiguous); follow edges carry the number of distinct constructs that
    generate them (two different loops that lead from p to q are two
    different backtracking paths).  Zero-width assertions are epsilon, except
    a positive look-ahead / ``$`` in tail position, which is a consuming
    'peek' that leads to ACCEPT only.
    """

    UNROLL_CAP = 64

    def __init__(self, pattern, flags=0, extra_chars='', peeks=True):
        self.peeks = peeks
        self.tree = parse(pattern, flags)
        self.flags = self.tree.state.flags | flags
        alpha = list(dict.fromkeys(BASE_ALPHABET + list(extra_chars)
                                   + [c for c in pattern if ord(c) > 126]))
        self.alphabet = alpha + [EOS]
        self.aidx = {c: i for i, c in enumerate(self.alphabet)}
        self.pos_chars = []     # position -> frozenset of alphabet indices
        self.pos_label = []     # position -> canonical text of its item
        self.pos_peek = []      # position is a tail peek
        self.pos_loop = []      # position -> text of innermost unbounded repeat (or None)
        self.follow = []        # position -> {position: multiplicity}
        self._class_cache = {}
        self._loop_stack = []
        self._poss = []         # possessive single-character repeats: (chain, lo, unbounded, chars)
        self.approx = []        # constructs whose language is over-approximated
        nullable, first, last = self._build(self.tree, True)
        self.nullable = nullable
        self.first = first
        self.last = last
        self.n = len(self.pos_chars)
        self._finish_possessive()

    # -- construction ---------------------------------------------------
    def _charset(self, op, av):
        key = (op, repr(av), self.flags)
        if key not in self._class_cache:
            s = frozenset(i for i, ch in enumerate(self.alphabet)
                          if ch != EOS and char_matches(op, av, ch, self.flags))
            self._class_cache[key] = s
        return self._class_cache[key]

    def _canon_label(self, chars, fallback):
        """Label of a position by the SET of characters it accepts (independent
        of how the class is written in the source)."""
        cs = sorted(self.alphabet[i] for i in chars if self.alphabet[i] != EOS)
        if not cs:
            return fallback
        if all(c.isspace() for c in cs) and len(cs) >= 5:
            return '\\s'
        if all(c.isdecimal() for c in cs) and len(cs) >= 10:
            return '\\d'
        if len(cs) > 40:
            return '.' if len(cs) >= len(self.alphabet) - 3 else f"<{len(cs)} chars>"
        low = sorted({c.lower() for c in cs})
        txt = ''.join(low)
        return txt if len(txt) <= 1 else f"[{txt}]"

    def _newpos(self, chars, label, peek=False):
        label = self._canon_label(chars, label)
        self.pos_chars.append(chars)
        self.pos_label.append(label)
        self.pos_peek.append(peek)
        self.pos_loop.append(self._loop_stack[-1] if self._loop_stack else None)
        self.follow.append({})
        return len(self.pos_chars) - 1

    def _link(self, lasts, firsts):
        for p in lasts:
            if self.pos_peek[p]:
                continue
            f = self.follow[p]
            for q in firsts:
                f[q] = f.get(q, 0) + 1

    def _peek_class(self, sub):
        """First-character class of a look-ahead body (or None)."""
        chars = set()
        for alt in ([sub] if not (len(sub) == 1 and sub[0][0] is C.BRANCH)
                    else sub[0][1][1]):
            items = list(alt)
            while items and items[0][0] is C.SUBPATTERN:
                items = list(items[0][1][3]) + items[1:]
            if not items:
                return None
            op, av = items[0]
            if op in SINGLE:
                chars |= self._charset(op, av)
            elif op is C.AT and av in (C.AT_END, C.AT_END_STRING):
                chars.add(self.aidx[EOS])
            elif op is C.BRANCH:
                r = self._peek_class([items[0]])
                if r is None:
                    return None
                chars |= r
            else:
                return None
        return frozenset(chars)

    def _build(self, sub, tail):
        items = list(sub)
        # which items are followed only by epsilon-able items
        eps_after = [True] * (len(items) + 1)
        for i in range(len(items) - 1, -1, -1):
            eps_after[i] = eps_after[i + 1] and self._epsable(items[i])
        nullable, first, last = True, set(), set()
        for i, item in enumerate(items):
            item_tail = tail and eps_after[i + 1]
            n2, f2, l2 = self._build_item(item, item_tail)
            self._link(last, f2)
            if nullable:
                first = first | f2
            if n2:
                last = last | l2
            else:
                last = set(l2)
            nullable = nullable and n2
        return nullable, first, last

    def _epsable(self, item):
        op, av = item
        if op in (C.AT, C.ASSERT, C.ASSERT_NOT):
            return True
        if op in SINGLE:
            return False
        if op is C.SUBPATTERN:
            return all(self._epsable(i) for i in av[3])
        if op is C.BRANCH:
            return any(all(self._epsable(i) for i in a) for a in av[1])
        if op in REPEATS:
            return av[0] == 0 or all(self._epsable(i) for i in av[2])
        return False

    def _build_item(self, item, tail):
        op, av = item
        if op in SINGLE:
            p = self._newpos(self._charset(op, av), show([item]))
            return False, {p}, {p}
        if op is C.SUBPATTERN:
            if av[1] or av[2]:
                saved = self.flags
                self.flags = (self.flags | av[1]) & ~av[2]
                try:
                    return self._build(av[3], tail)
                finally:
                    self.flags = saved
            return self._build(av[3], tail)
        if op is C.BRANCH:
            nullable, first, last = False, set(), set()
            for alt in av[1]:
                n2, f2, l2 = self._build(alt, tail)
                nullable = nullable or n2
                first |= f2
                last |= l2
            return nullable, first, last
        if op in REPEATS:
            lo, hi, s2 = av
            if op is POSSESSIVE:
                return self._build_possessive(lo, hi, s2, show([item]))
            return self._build_repeat(lo, hi, s2, show([item]))
        if op is ATOMIC and op is not None:
            # language over-approximated by the plain group
            self.approx.append('(?>' + show(av) + ')')
            return self._build(av, tail)
        if op is C.AT:
            if tail and self.peeks and av in (C.AT_END, C.AT_END_STRING):
                p = self._newpos(frozenset([self.aidx[EOS]]), '$', peek=True)
                return False, {p}, {p}
            return True, set(), set()
        if op is C.ASSERT:
            d, s2 = av
            if tail and self.peeks and d >= 0:
                cls = self._peek_class(s2)
                if cls is not None:
                    p = self._newpos(cls, '(?=' + show(s2) + ')', peek=True)
                    return False, {p}, {p}
            return True, set(), set()
        if op is C.ASSERT_NOT:
            return True, set(), set()
        if op is C.GROUPREF or op is getattr(C, 'GROUPREF_EXISTS', None):
            raise AnalysisError("back-references are not modelled")
        raise AnalysisError(f"regex construct {op} not modelled")

    def _build_possessive(self, lo, hi, s2, text):
        """X{lo,hi}+ .  With a single-character body the language is exact:
        the repeat may only be left (or skipped) on a character that X does
        not accept, unless hi iterations were taken.  That is recorded as
        per-edge character exclusions, resolved in _finish_possessive once all
        follow sets are complete.  Any other body: plain greedy repeat
        (over-approximation of the language), noted in self.approx."""
        body = list(s2)
        while len(body) == 1 and body[0][0] is C.SUBPATTERN and not body[0][1][1] and not body[0][1][2]:
            body = list(body[0][1][3])
        before = len(self.pos_chars)
        res = self._build_repeat(lo, hi, s2, text)
        made = list(range(before, len(self.pos_chars)))
        if len(body) != 1 or body[0][0] not in SINGLE:
            self.approx.append(text)
            return res
        # order of the copies in the sequence: mandatory ones as created, the
        # optional ones were created innermost-last ... _build_repeat creates
        # E(E(E)?)? from the outside in, so creation order IS sequence order
        # for the mandatory part and REVERSED for the optional part
        chain = made[:lo] + list(reversed(made[lo:])) if hi != MAXREPEAT else made
        self._poss.append((chain, lo, hi == MAXREPEAT, self.pos_chars[made[0]]))
        return res

    def _finish_possessive(self):
        self.edge_excl = {}
        self.first_excl = {}
        self.poss_entry = {chain[0] for chain, lo, _u, _k in self._poss if lo == 0}
        for chain, lo, unbounded, K in self._poss:
            nxt = {}
            for a, b in zip(chain, chain[1:]):
                nxt[a] = b
            if unbounded:
                nxt[chain[-1]] = chain[-1]
            for c, b in nxt.items():
                if self.follow[c].get(b, 0) > 1:
                    # the other ways from c to b leave the repeat and come back
                    # on a character of X: a possessive repeat continues instead
                    self.follow[c][b] = 1
                for y in self.follow[c]:
                    if y != b:
                        self.edge_excl[(c, y)] = self.edge_excl.get((c, y), frozenset()) | K
            if lo == 0:
                c1 = chain[0]
                exits = {y for y in self.follow[c1] if y != nxt.get(c1)}
                inside = set(chain)
                for q in range(len(self.follow)):
                    if q in inside or c1 not in self.follow[q]:
                        continue
                    for y in self.follow[q]:
                        if y in exits and y != c1:
                            self.edge_excl[(q, y)] = self.edge_excl.get((q, y), frozenset()) | K
                if c1 in self.first:
                    for y in self.first:
                        if y in exits and y != c1:
                            self.first_excl[y] = self.first_excl.get(y, frozenset()) | K

    def _build_repeat(self, lo, hi, s2, text):
        if hi != MAXREPEAT and hi > self.UNROLL_CAP:
            raise AnalysisError(f"bounded repeat {{{lo},{hi}}} above unroll cap")
        nullable, first, last = True, set(), set()

        def concat(acc, nxt):
            an, af, al = acc
            n2, f2, l2 = nxt
            self._link(al, f2)
            first_ = af | f2 if an else af
            last_ = (al | l2) if n2 else set(l2)
            return an and n2, first_, last_

        acc = (True, set(), set())
        for _ in range(lo):
            acc = concat(acc, self._build(s2, False))
        if hi == MAXREPEAT:
            self._loop_stack.append(text)
            n2, f2, l2 = self._build(s2, False)
            self._loop_stack.pop()
            self._link(l2, f2)              # the loop
            acc = concat(acc, (True, f2, l2))
        else:
            # nested optionals: E(E(E)?)?
            opt = None
            for _ in range(hi - lo):
                n2, f2, l2 = self._build(s2, False)
                if opt is not None:
                    on, of, ol = opt
                    self._link(l2, of)
                    l2 = l2 | ol
                opt = (True, f2, l2)
            if opt is not None:
                acc = concat(acc, opt)
        return acc

    # -- simulation -----------------------------------------------------
    def echars(self, p, q):
        """characters on which the edge p -> q can be taken"""
        ex = self.edge_excl.get((p, q)) if self.edge_excl else None
        return self.pos_chars[q] - ex if ex else self.pos_chars[q]

    def step(self, states, ch):
        """states: set of positions (or 'START'); returns next set."""
        ci = self.aidx.get(ch)
        if ci is None:
            ci = self.aidx['☺'] if ch != EOS else self.aidx[EOS]
        out = set()
        for p in states:
            succ = self.first if p == 'START' else self.follow[p]
            for q in succ:
                if ci in self.pos_chars[q]:
                    if self.edge_excl or self.first_excl:
                        ex = self.first_excl.get(q) if p == 'START' else self.edge_excl.get((p, q))
                        if ex and ci in ex:
                            continue
                    out.add(q)
        return out

    def accepting(self, states):
        return any((p == 'START' and self.nullable) or (p != 'START' and p in self.last)
                   for p in states)

    def can_accept_prefix(self, start_states, word):
        """Is ACCEPT reachable on some prefix of word from start_states?"""
        cur = set(start_states)
        if self.accepting(cur):
            return True
        for ch in word:
            cur = self.step(cur, ch)
            if not cur:
                return False
            if self.accepting(cur):
                return True
        return False

    # -- graph helpers ----------------------------------------------------
    def _sccs(self):
        n = self.n
        index = [None] * n
        low = [0] * n
        onstack = [False] * n
        stack = []
        comps = []
        counter = [0]
        for root in range(n):
            if index[root] is not None:
                continue
            work = [(root, iter(self.follow[root]))]
            index[root] = low[root] = counter[0]
            counter[0] += 1
            stack.append(root)
            onstack[root] = True
            while work:
                v, it = work[-1]
                advanced = False
                for w in it:
                    if index[w] is None:
                        index[w] = low[w] = counter[0]
                        counter[0] += 1
                        stack.append(w)
                        onstack[w] = True
                        work.append((w, iter(self.follow[w])))
                        advanced = True
                        break
                    elif onstack[w]:
                        low[v] = min(low[v], index[w])
                if advanced:
                    continue
                work.pop()
                if work:
                    u = work[-1][0]
                    low[u] = min(low[u], low[v])
                if low[v] == index[v]:
                    comp = []
                    while True:
                        w = stack.pop()
                        onstack[w] = False
                        comp.append(w)
                        if w == v:
                            break
                    comps.append(comp)
        return comps

    def loops(self):
        """Non-trivial SCCs (contain a cycle) as frozensets, and scc id map."""
        comps = self._sccs()
        sccid = {}
        out = []
        for c in comps:
            cyc = len(c) > 1 or c[0] in self.follow[c[0]]
            cid = len(out) if cyc else None
            if cyc:
                out.append(frozenset(c))
            for p in c:
                sccid[p] = cid
        return out, sccid

    def shortest_prefix(self, target):
        """A shortest word leading from START to position target."""
        from collections import deque
        prev = {}
        dq = deque()
        for q in self.first:
            prev[q] = None
            dq.append(q)
        while dq:
            p = dq.popleft()
            if p == target:
                break
            for q in self.follow[p]:
                if q not in prev:
                    prev[q] = p
                    dq.append(q)
        if target not in prev:
            return None
        path = []
        p = target
        while p is not None:
            path.append(p)
            p = prev[p]
        path.reverse()
        return ''.join(self._rep_char(self.pos_chars[q]) for q in path)

    def _rep_char(self, charset, prefer=' .1aN'):
        for ch in prefer:
            if self.aidx.get(ch) in charset:
                return ch
        for i in sorted(charset):
            if self.alphabet[i] != EOS:
                return self.alphabet[i]
        return ''

    # -- EDA -------------------------------------------------------------
    def find_eda(self):
        """
        Exponential ambiguity: list of dicts {pivot, pump (str), loop (text),
        via}.  One witness per (loop text) at most.
        """
        loops, sccid = self.loops()
        out = []
        seen_loops = set()
        for comp in loops:
            # (i) an edge of multiplicity >= 2 inside a cycle
            for p in comp:
                for q, m in self.follow[p].items():
                    if m >= 2 and q in comp:
                        if q in self.poss_entry:
                            # one of the routes into an optional possessive repeat may be
                            # "skip it, go round an enclosing loop, enter it", which a
                            # possessive repeat never does: not counted
                            self.approx.append(f"multiplicity of the edge into {self.pos_label[q]}*+")
                            continue
                        word = self._cycle_word(q, p, comp)
                        if word is None:
                            continue
                        key = (self.pos_loop[q], 'mult')
                        if key in seen_loops:
                            continue
                        seen_loops.add(key)
                        out.append({'pivot': p, 'pump': word,
                                    'loop': self.pos_loop[q], 'div': 'x2:' + self.pos_label[q],
                                    'via': 'nested-loop multiplicity'})
            # (ii) pair product
            out.extend(self._pair_eda(comp))
        return out

    def _cycle_word(self, start, end, comp):
        """word labelling a path start -> ... -> end -> start inside comp
        (consuming start's char first)."""
        from collections import deque
        prev = {start: None}
        dq = deque([start])
        while dq:
            p = dq.popleft()
            if p == end:
                break
            for q in self.follow[p]:
                if q in comp and q not in prev:
                    prev[q] = p
                    dq.append(q)
        if end not in prev:
            return None
        path = []
        p = end
        while p is not None:
            path.append(p)
            p = prev[p]
        path.reverse()
        return ''.join(self._rep_char(self.pos_chars[q]) for q in path)

    def _pair_eda(self, comp):
        from collections import deque
        comp_l = sorted(comp)
        res = []
        # forward reachability from each diagonal node, on the fly
        succ_cache = {}

        def succ(a, b):
            key = (a, b)
            if key in succ_cache:
                return succ_cache[key]
            out = []
            fa = [x for x in self.follow[a] if x in comp]
            fb = [x for x in self.follow[b] if x in comp]
            for x in fa:
                cx = self.echars(a, x)
                for y in fb:
                    inter = cx & self.echars(b, y)
                    if inter:
                        out.append(((x, y), inter))
            succ_cache[key] = out
            return out

        # explore product graph reachable from the diagonal
        nodes = {}
        dq = deque()
        for r in comp_l:
            nodes[(r, r)] = None
            dq.append((r, r))
        edges = {}
        while dq:
            nd = dq.popleft()
            lst = []
            for (nx, inter) in succ(*nd):
                lst.append(nx)
                if nx not in nodes:
                    nodes[nx] = nd
                    dq.append(nx)
            edges[nd] = lst
        # SCCs of the explored product
        order = list(nodes)
        idx = {n: i for i, n in enumerate(order)}
        adj = [[idx[m] for m in edges.get(n, [])] for n in order]
        comps = _tarjan(adj)
        for cset in comps:
            if len(cset) < 2:
                continue
            members = [order[i] for i in cset]
            diag = [m for m in members if m[0] == m[1]]
            off = [m for m in members if m[0] != m[1]]
            if not diag or not off:
                continue
            memset = set(members)
            loops = {self.pos_loop[m[0]] for m in members} | {self.pos_loop[m[1]] for m in members}
            loops.discard(None)
            looptxt = ' & '.join(sorted(loops))[:300]
            # every divergence point (r,r) -> (a,b), a != b, inside the SCC,
            # with its shortest return word
            seen_div = set()
            for r in diag:
                for (nx, inter) in succ(*r):
                    if nx[0] == nx[1] or nx not in memset:
                        continue
                    sig = (r[0], frozenset(nx))
                    if sig in seen_div:
                        continue
                    seen_div.add(sig)
                    back = self._product_path(nx, {r}, memset, succ)
                    if back is None:
                        continue
                    word = self._rep_char(inter) + back
                    res.append({'pivot': r[0], 'pump': word, 'loop': looptxt,
                                'div': '~'.join(sorted((self.pos_label[nx[0]], self.pos_label[nx[1]]))),
                                'via': 'pair-product SCC with diagonal and off-diagonal node'})
        return res

    def _product_path(self, src, targets, memset, succ):
        from collections import deque
        if src in targets:
            return ''
        prev = {src: None}
        dq = deque([src])
        while dq:
            nd = dq.popleft()
            for (nx, inter) in succ(*nd):
                if nx in memset and nx not in prev:
                    prev[nx] = (nd, inter)
                    if nx in targets:
                        word = []
                        cur = nx
                        while prev[cur] is not None:
                            pnd, it = prev[cur]
                            word.append(self._rep_char(it))
                            cur = pnd
                        return ''.join(reversed(word))
                    dq.append(nx)
        return None

    def _product_cycle_word(self, r, off, memset, succ):
        from collections import deque

        def bfs(src, targets):
            prev = {src: None}
            dq = deque([src])
            while dq:
                nd = dq.popleft()
                for (nx, inter) in succ(*nd):
                    if nx in memset and nx not in prev:
                        prev[nx] = (nd, inter)
                        if nx in targets:
                            # rebuild
                            word = []
                            cur = nx
                            while prev[cur] is not None:
                                pnd, it = prev[cur]
                                word.append(self._rep_char(it))
                                cur = pnd
                            return nx, ''.join(reversed(word))
                        dq.append(nx)
            return None, ''
        tgt, w1 = bfs(r, set(off))
        if tgt is None:
            return ''
        back, w2 = bfs(tgt, {r})
        return w1 + w2

    # -- IDA -------------------------------------------------------------
    def find_ida(self, max_pairs=20000):
        """
        Polynomial ambiguity.  Returns (degree, chain, links) where chain is
        the longest chain p1 |> p2 |> ... of positions and links maps
        (p, q) -> pump word.
        """
        from collections import deque
        loops, sccid = self.loops()
        if not loops:
            return 0, [], {}
        # reachability between loops (over all positions)
        reach = [set() for _ in range(self.n)]
        order = self._topo_positions()
        for p in reversed(order):
            r = reach[p]
            for q in self.follow[p]:
                r.add(q)
                r |= reach[q]
        links = {}
        loop_positions = [p for p in range(self.n) if sccid.get(p) is not None]
        count = 0
        for p in loop_positions:
            cp = loops[sccid[p]]
            for q in loop_positions:
                if sccid[q] == sccid[p] or q not in reach[p]:
                    continue
                # quick prune: some successor of p in cp and of q in cq share a char
                cq = loops[sccid[q]]
                count += 1
                if count > max_pairs:
                    raise AnalysisError("IDA search exceeded pair budget")
                w = self._ida_link(p, q, cp, cq, reach)
                if w is not None:
                    links[(p, q)] = w
        # longest chain
        best = {}
        graph = {}
        for (p, q) in links:
            graph.setdefault(p, []).append(q)

        def longest(p, stack=()):
            if p in best:
                return best[p]
            b = (0, [p])
            for q in graph.get(p, []):
                if q in stack:
                    continue
                d, ch = longest(q, stack + (p,))
                if d + 1 > b[0]:
                    b = (d + 1, [p] + ch)
            best[p] = b
            return b
        deg, chain = 0, []
        for p in graph:
            d, ch = longest(p)
            if d > deg:
                deg, chain = d, ch
        return deg, chain, links

    def _topo_positions(self):
        # reverse post-order of a DFS over follow (cycles tolerated)
        seen = set()
        out = []
        for root in range(self.n):
            if root in seen:
                continue
            stack = [(root, iter(self.follow[root]))]
            seen.add(root)
            while stack:
                v, it = stack[-1]
                adv = False
                for w in it:
                    if w not in seen:
                        seen.add(w)
                        stack.append((w, iter(self.follow[w])))
                        adv = True
                        break
                if not adv:
                    stack.pop()
                    out.append(v)
        out.reverse()
        # iterate to fixpoint cheaply: caller unions successors; because of
        # cycles do two passes
        return out + out

    def _ida_link(self, p, q, cp, cq, reach):
        """word w with p->p, p->q, q->q (first comp stays in cp, third in
        cq), or None."""
        from collections import deque
        start = (p, p, q)
        goal = (p, q, q)
        prev = {start: None}
        dq = deque([start])
        between = reach[p]
        while dq:
            a, m, b = dq.popleft()
            for x in self.follow[a]:
                if x not in cp:
                    continue
                cx = self.echars(a, x)
                for z in self.follow[b]:
                    if z not in cq:
                        continue
                    cxz = cx & self.echars(b, z)
                    if not cxz:
                        continue
                    for y in self.follow[m]:
                        if not (y == q or q in reach[y]):
                            continue
                        inter = cxz & self.echars(m, y)
                        if not inter:
                            continue
                        nd = (x, y, z)
                        if nd in prev:
                            continue
                        prev[nd] = ((a, m, b), inter)
                        if nd == goal:
                            word = []
                            cur = nd
                            while prev[cur] is not None:
                                pnd, it = prev[cur]
                                word.append(self._rep_char(it))
                                cur = pnd
                            return ''.join(reversed(word))
                        dq.append(nd)
            if len(prev) > 200000:
                raise AnalysisError("IDA triple product too large")
        return None

    # -- exploitability ----------------------------------------------------
    def exploitable(self, pivot, pump, bound=6, suffixes=None):
        """
        'exploitable' : for some suffix z, ACCEPT is unreachable from the pivot
                        on pump^j z for every j in 0..bound;
        'benign'      : ACCEPT reachable for every j >= 1 and every suffix;
        'inconclusive': otherwise.
        Returns (verdict, suffix).
        """
        if not pump:
            return 'inconclusive', None
        if suffixes is None:
            suffixes = [EOS, 'x', '!', '0', ' ', '\n', 'N', ',']
        all_ok = True
        for z in suffixes:
            reach_any = False
            reach_all = True
            for j in range(0, bound + 1):
                word = list(pump) * j + [z]
                ok = self.can_accept_prefix({pivot}, word)
                reach_any = reach_any or ok
                if j >= 1 and not ok:
                    reach_all = False
            if not reach_any:
                return 'exploitable', z
            if not reach_all:
                all_ok = False
        return ('benign' if all_ok else 'inconclusive'), None


def _tarjan(adj):
    n = len(adj)
    index = [None] * n
    low = [0] * n
    on = [False] * n
    st = []
    comps = []
    c = 0
    for root in range(n):
        if index[root] is not None:
            continue
        work = [(root, 0)]
        index[root] = low[root] = c
        c += 1
        st.append(root)
        on[root] = True
        while work:
            v, i = work[-1]
            if i < len(adj[v]):
                work[-1] = (v, i + 1)
                w = adj[v][i]
                if index[w] is None:
                    index[w] = low[w] = c
                    c += 1
                    st.append(w)
                    on[w] = True
                    work.append((w, 0))
                elif on[w]:
                    low[v] = min(low[v], index[w])
            else:
                work.pop()
                if work:
                    u = work[-1][0]
                    low[u] = min(low[u], low[v])
                if low[v] == index[v]:
                    comp = []
                    while True:
                        w = st.pop()
                        on[w] = False
                        comp.append(w)
                        if w == v:
                            break
                    comps.append(comp)
    return comps


def analyse_ambiguity(pattern, flags, bound=6):
    """
    Full RX-AMB analysis of one pattern.  Returns a dict with automaton size,
    EDA findings (with exploitability), IDA degree and chain.
    """
    A = Automaton(pattern, flags)
    res = {'positions': A.n, 'eda': [], 'ida_degree': 0, 'ida': None}
    rank = {'exploitable': 2, 'inconclusive': 1, 'benign': 0}
    by_loop = {}
    sigs = {}
    n_div = 0
    for e in A.find_eda():
        n_div += 1
        verdict, z = A.exploitable(e['pivot'], e['pump'], bound)
        cur = by_loop.get(e['loop'])
        if verdict == 'exploitable':
            sigs.setdefault(e['loop'], set()).add(e.get('div', '?'))
        if cur is not None and rank[cur['verdict']] >= rank[verdict]:
            cur['candidates'] += 1
            continue
        pre = A.shortest_prefix(e['pivot']) or ''
        zz = '' if z in (None, EOS) else z
        by_loop[e['loop']] = {
            'loop': e['loop'], 'via': e['via'], 'pump': e['pump'],
            'verdict': verdict,
            'witness': f"{pre!r} + {e['pump']!r}*n + {zz!r}",
            'candidates': (cur['candidates'] + 1) if cur else 1,
        }
    for lp, rec in by_loop.items():
        rec['signature'] = ' ; '.join(sorted(sigs.get(lp, [])))
    # is a run of whitespace ALONE enough to pump an exploitable ambiguity?  (a discriminating fact of
    # its own: real text is full of blank runs, while the other pumps need punctuation / words)
    res['ws_pump'] = None
    for e in A.find_eda():
        if e['pump'] and e['pump'].isspace():
            verdict, z = A.exploitable(e['pivot'], e['pump'], bound)
            if verdict == 'exploitable':
                pre = A.shortest_prefix(e['pivot']) or ''
                zz = '' if z in (None, EOS) else z
                res['ws_pump'] = {'pump': e['pump'], 'loop': e['loop'], 'witness': f"{pre!r} + {e['pump']!r}*n + {zz!r}"}
                break
    res['eda'] = list(by_loop.values())
    res['divergence_points'] = n_div
    deg, chain, links = A.find_ida()
    res['ida_degree'] = deg
    res['approx'] = list(dict.fromkeys(A.approx))
    if deg:
        last = chain[-1]
        word = links[(chain[-2], chain[-1])]
        verdict, z = A.exploitable(last, word, bound)
        pre = A.shortest_prefix(chain[0]) or ''
        zz = '' if z in (None, EOS) else z
        res['ida'] = {
            'degree': deg,
            'chain': [A.pos_label[p] for p in chain],
            'loops': [A.pos_loop[p] for p in chain],
            'pump': word, 'verdict': verdict,
            'witness': f"{pre!r} + {word!r}*n + {zz!r}",
        }
    return res


def included(f_pattern, f_flags, r_pattern, r_flags, limit=200000, ascii_only=False):
    """
    Language inclusion L(F) <= L(R) under whole-string semantics, by on-the-fly
    subset construction of R's position automaton along F's.  Zero-width
    assertions of both are epsilon, so L(R) is over-approximated: a returned
    counterexample word is a true non-member of L(R) (as far as consuming
    structure goes); ``None`` means included in the over-approximation.
    """
    extra = ''.join(c for c in (f_pattern + r_pattern) if ord(c) > 126)
    AF = Automaton(f_pattern, f_flags, extra_chars=extra, peeks=False)
    AR = Automaton(r_pattern, r_flags, extra_chars=extra, peeks=False)
    if AF.alphabet != AR.alphabet:
        raise AnalysisError("alphabet mismatch in inclusion test")
    from collections import deque
    start = ('START', frozenset(['START']))
    prev = {start: None}
    dq = deque([start])

    def word(state, last=None):
        w = []
        cur = state
        while prev[cur] is not None:
            pst, ch = prev[cur]
            w.append(ch)
            cur = pst
        w.reverse()
        if last:
            w.append(last)
        return ''.join(w)

    if AF.edge_excl or AF.first_excl or AF.approx:
        raise AnalysisError("inclusion test: possessive / atomic constructs on the left-hand side are not modelled")
    verify = None
    if AR.edge_excl or AR.first_excl:
        # exits of possessive repeats were cut per edge; an edge shared with an
        # alternative route can be cut wrongly, so a counterexample is
        # confirmed by exact membership before it is reported
        LR = Lang(r_pattern, r_flags)

        def verify(w):
            if LR.fullmatch(w):
                raise AnalysisError(f"inclusion test: possessive quantifiers in the pattern; candidate {w!r} "
                                    f"is matched after all - undecided")
            return w
    if AF.nullable and not AR.nullable:
        return ''
    while dq:
        st = dq.popleft()
        pf, SR = st
        succ_f = AF.first if pf == 'START' else AF.follow[pf]
        for qf in succ_f:
            # partition qf's characters by R's reaction
            groups = {}
            for ci in AF.pos_chars[qf]:
                ch = AF.alphabet[ci]
                if ascii_only and ord(ch) > 126:
                    continue
                nxt = frozenset(AR.step(SR, ch))
                groups.setdefault(nxt, ch)
            for nxt, ch in groups.items():
                if not nxt:
                    return verify(word(st, ch)) if verify else word(st, ch)
                ns = (qf, nxt)
                if ns in prev:
                    continue
                prev[ns] = (st, ch)
                if qf in AF.last and not AR.accepting(nxt):
                    return verify(word(ns)) if verify else word(ns)
                dq.append(ns)
                if len(prev) > limit:
                    raise AnalysisError("inclusion test exceeded its state budget")
    return None


def sample_words(pattern, flags, n, rng, max_len=60):
    """Random members (and near-members) of L(pattern) by walking its
    position automaton; used only to cross-validate Lang against re."""
    A = Automaton(pattern, flags, peeks=False)
    out = []
    for _ in range(n * 3):
        if len(out) >= n:
            break
        cur = 'START'
        w = []
        for _step in range(max_len):
            succ = list(A.first if cur == 'START' else A.follow[cur])
            stop = (cur != 'START' and cur in A.last) or (cur == 'START' and A.nullable)
            if not succ or (stop and rng.random() < 0.3):
                break
            cur = rng.choice(sorted(succ))
            chars = [A.alphabet[i] for i in sorted(A.pos_chars[cur]) if A.alphabet[i] != EOS]
            if not chars:
                break
            # prefer plain ASCII letters/digits/space to keep words readable
            plain = [c for c in chars if c.isascii()]
            w.append(rng.choice(plain or chars))
        word = ''.join(w)
        out.append(word)
        if word and rng.random() < 0.5:      # a near-miss: drop / double a char
            i = rng.randrange(len(word))
            out.append(word[:i] + word[i + 1:])
    return out[:n * 2]


def enumerate_words(sub, flags=0, cap=400, rep_extra=1):
    """Some members of the language of the sub-pattern ``sub`` (a parsed
    sequence): every alternative is followed, a repeat is taken lo and
    lo+rep_extra times (never beyond hi), a character class contributes a
    representative or two.  Every returned word IS a member (as far as
    consuming structure goes - zero-width tests are ignored); the list is not
    complete.  Used to look for witnesses, never to prove absence."""
    def chars(op, av):
        if op is C.LITERAL:
            return [chr(av)]
        if op is C.ANY:
            return ['x']
        cands = ' .xN2neswNESW/½¼-,\n' + ''.join(chr(c) for c in range(33, 127))
        out = []
        for ch in cands:
            if char_matches(op, av, ch, flags) and ch not in out:
                out.append(ch)
            if len(out) >= 2:
                break
        return out

    def seq(items):
        words = ['']
        for it in items:
            nxt = []
            for tail in item(it):
                for w in words:
                    nxt.append(w + tail)
                    if len(nxt) > cap:
                        break
                if len(nxt) > cap:
                    break
            words = nxt or words[:0]
            if not words:
                return []
        return words

    def item(it):
        op, av = it
        if op in SINGLE:
            return chars(op, av)
        if op is C.SUBPATTERN:
            return seq(list(av[3]))
        if op is C.BRANCH:
            out = []
            for alt in av[1]:
                out += seq(list(alt))
            return out[:cap]
        if op in REPEATS:
            lo, hi, body = av
            counts = sorted({lo, min(lo + rep_extra, hi if hi != MAXREPEAT else lo + rep_extra)})
            bodyw = seq(list(body))[:6]
            out = []
            for k in counts:
                ws = ['']
                for _ in range(k):
                    ws = [w + b for w in ws for b in bodyw][:cap]
                out += ws
            return out[:cap]
        if op in (C.AT, C.ASSERT, C.ASSERT_NOT):
            return ['']
        if op is ATOMIC and op is not None:
            return seq(list(av))
        raise AnalysisError(f"regex construct {op} not enumerated")
    return list(dict.fromkeys(seq(list(sub))))[:cap]


def exclusive_group_pairs(pattern, flags=0):
    """Pairs (g, h) of NAMED groups that sit in different alternatives of one
    BRANCH: after a match at most one of them is set.  Returned for every
    pair of alternatives of every branch (also nested ones)."""
    tree = parse(pattern, flags)
    names = {v: k for k, v in tree.state.groupdict.items()}
    out = set()

    def groups_in(items):
        found = set()
        for op, av in items:
            if op is C.SUBPATTERN:
                if av[0] in names:
                    found.add(names[av[0]])
                found |= groups_in(av[3])
            elif op is C.BRANCH:
                for alt in av[1]:
                    found |= groups_in(alt)
            elif op in REPEATS:
                found |= groups_in(av[2])
            elif op in (C.ASSERT, C.ASSERT_NOT):
                found |= groups_in(av[1])
            elif op is ATOMIC and op is not None:
                found |= groups_in(av)
        return found

    def walk(items):
        for op, av in items:
            if op is C.SUBPATTERN:
                walk(av[3])
            elif op is C.BRANCH:
                per_alt = [groups_in(alt) for alt in av[1]]
                for i, a in enumerate(per_alt):
                    for j, b in enumerate(per_alt):
                        if i != j:
                            for g in a:
                                for h in b:
                                    out.add((g, h))
                for alt in av[1]:
                    walk(alt)
            elif op in REPEATS:
                walk(av[2])
            elif op in (C.ASSERT, C.ASSERT_NOT):
                walk(av[1])
            elif op is ATOMIC and op is not None:
                walk(av)
    walk(list(tree))
    return out


def iteration_groups(pattern, flags=0):
    """Named groups inside a repeat that may run more than once, split by
    whether every iteration sets them.

    Python keeps, for a group inside `( ... )*`, the text of the LAST
    iteration in which the group took part.  A group every iteration must
    pass through (`fresh`) therefore describes the last (rightmost)
    iteration; a group some iterations skip (`stale`: optional, or in one
    branch of an alternation) may still hold what an EARLIER iteration
    captured.

    Returns a list of (fresh_names, stale_names), one per outermost repeat.
    """
    tree = parse(pattern, flags)
    names = {v: k for k, v in tree.state.groupdict.items()}
    out = []

    def inside(sub, optional, fresh, stale):
        for op, av in sub:
            if op is C.SUBPATTERN:
                g, _a, _d, s2 = av
                if g is not None and g in names:
                    (stale if optional else fresh).add(names[g])
                inside(s2, optional, fresh, stale)
            elif op is C.BRANCH:
                for alt in av[1]:
                    inside(alt, True, fresh, stale)
            elif op in REPEATS:
                lo, _hi, s2 = av
                inside(s2, optional or lo == 0, fresh, stale)
            elif op is C.GROUPREF_EXISTS:
                for alt in av[1:]:
                    if alt:
                        inside(alt, True, fresh, stale)

    def top(sub):
        for op, av in sub:
            if op is C.SUBPATTERN:
                top(av[3])
            elif op is C.BRANCH:
                for alt in av[1]:
                    top(alt)
            elif op in REPEATS:
                lo, hi, s2 = av
                if hi > 1:
                    fresh, stale = set(), set()
                    inside(s2, False, fresh, stale)
                    if fresh or stale:
                        out.append((fresh - stale, stale))
                else:
                    top(s2)
    top(tree)
    return out


def consumes_only(pattern, flags, pred):
    """Every character a match of `pattern` can consume satisfies `pred`
    (decided on the parse tree: literals, classes without negation, categories
    via a probe alphabet).  Look-arounds consume nothing and are not judged."""
    probe = [chr(c) for c in range(0, 256)] + [' ', '¼', '½', '–', '—']

    def ok_item(op, av):
        if op is C.LITERAL:
            return pred(chr(av))
        if op is C.NOT_LITERAL or op is C.ANY:
            return False
        if op is C.IN:
            return all(pred(ch) for ch in probe if char_matches(op, av, ch, flags)) and not any(o is C.NEGATE for o, _ in av)
        if op is C.SUBPATTERN:
            return ok_seq(av[3])
        if op is C.BRANCH:
            return all(ok_seq(alt) for alt in av[1])
        if op in REPEATS:
            return ok_seq(av[2])
        if op in (C.AT, C.ASSERT, C.ASSERT_NOT):
            return True
        if op is getattr(C, 'ATOMIC_GROUP', None):
            return ok_seq(av)
        return False

    def ok_seq(sub):
        return all(ok_item(op, av) for op, av in sub)
    return ok_seq(parse(pattern, flags))
