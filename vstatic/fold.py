"""
Constant folder for the sub-language pyTRS uses to build its regexes and
tables: literals, tuples/lists/dicts/sets, ``+``, ``|`` on ``re`` flags,
f-strings, ``str.format``, ``X.pattern`` of a folded ``re.compile``, class
level constants, and inlining of straight-line pure functions.

Module bodies are *interpreted symbolically in order* (``_form`` in
rgxlib/aliquots.py is re-assigned), imports are resolved through the source
model (relative, ``import *``).  Nothing from the repository is imported.
"""

import ast
import re as _re   # only for the numeric values of the flag constants

from . import AnalysisError


class Unknown:
    """Marker for a value that does not fold."""
    def __init__(self, why=''):
        self.why = why

    def __repr__(self):
        return f"<Unknown {self.why}>"


class RegexVal:
    def __init__(self, pattern, flags, name=None, module=None):
        self.pattern = pattern
        self.flags = flags
        self.name = name
        self.module = module

    def key(self):
        return (self.pattern, self.flags)

    def __hash__(self):
        return hash(self.key())

    def __eq__(self, other):
        return isinstance(other, RegexVal) and self.key() == other.key()

    def __repr__(self):
        return f"<Regex {self.name or '?'} flags={self.flags} len={len(self.pattern)}>"


class ClassVal:
    def __init__(self, name, attrs, node=None, module=None):
        self.name = name
        self.attrs = attrs
        self.node = node
        self.module = module

    def __repr__(self):
        return f"<Class {self.name}>"


class FuncVal:
    def __init__(self, node, modname):
        self.node = node
        self.modname = modname

    def __repr__(self):
        return f"<Func {self.node.name}>"


class ModuleVal:
    def __init__(self, name):
        self.name = name

    def __repr__(self):
        return f"<Module {self.name}>"


RE_FLAGS = {
    'I': _re.I, 'IGNORECASE': _re.I, 'X': _re.X, 'VERBOSE': _re.X,
    'M': _re.M, 'MULTILINE': _re.M, 'S': _re.S, 'DOTALL': _re.S,
    'A': _re.A, 'ASCII': _re.A, 'U': _re.U, 'UNICODE': _re.U,
}


def is_unknown(v):
    return isinstance(v, Unknown)


class Folder:
    def __init__(self, repo):
        self.repo = repo
        self._envs = {}
        self._in_progress = set()

    # ------------------------------------------------------------------
    def module_env(self, modname):
        if modname in self._envs:
            return self._envs[modname]
        if modname in self._in_progress:
            return {}       # import cycle: partial env
        mod = self.repo.modules.get(modname)
        if mod is None:
            raise AnalysisError(f"fold: no module {modname}")
        self._in_progress.add(modname)
        env = {}
        self._envs[modname] = env   # visible early for cycles
        self._exec_body(mod.tree.body, env, modname)
        self._in_progress.discard(modname)
        return env

    def env_of(self, suffix):
        return self.module_env(self.repo.module(suffix).name)

    def get(self, modsuffix, name):
        """Folded module-level value; Unknown/missing is an AnalysisError."""
        env = self.env_of(modsuffix)
        if name not in env:
            raise AnalysisError(f"fold: {modsuffix}.{name} is not defined")
        v = env[name]
        if is_unknown(v):
            raise AnalysisError(f"fold: {modsuffix}.{name} does not fold ({v.why})")
        return v

    def get_attr(self, modsuffix, clsname, attr):
        c = self.get(modsuffix, clsname)
        if not isinstance(c, ClassVal) or attr not in c.attrs:
            raise AnalysisError(f"fold: {modsuffix}.{clsname}.{attr} missing")
        v = c.attrs[attr]
        if is_unknown(v):
            raise AnalysisError(
                f"fold: {modsuffix}.{clsname}.{attr} does not fold ({v.why})")
        return v

    # ------------------------------------------------------------------
    def _exec_body(self, body, env, modname, cls_env=None):
        for st in body:
            self._exec_stmt(st, env, modname)

    def _exec_stmt(self, st, env, modname):
        if isinstance(st, ast.Assign):
            val = self.eval(st.value, env, modname)
            for t in st.targets:
                self._bind(t, val, env, modname)
        elif isinstance(st, ast.AnnAssign):
            if st.value is not None:
                self._bind(st.target, self.eval(st.value, env, modname),
                           env, modname)
        elif isinstance(st, ast.AugAssign):
            if isinstance(st.target, ast.Name):
                cur = env.get(st.target.id, Unknown('augassign'))
                rhs = self.eval(st.value, env, modname)
                env[st.target.id] = self._binop(st.op, cur, rhs)
        elif isinstance(st, ast.Import):
            for a in st.names:
                nm = a.asname or a.name.split('.')[0]
                if a.name.split('.')[0] == 'pytrs':
                    env[nm] = Unknown('import pytrs...')
                else:
                    env[nm] = ModuleVal(a.name if a.asname else a.name.split('.')[0])
        elif isinstance(st, ast.ImportFrom):
            self._import_from(st, env, modname)
        elif isinstance(st, (ast.FunctionDef, ast.AsyncFunctionDef)):
            env[st.name] = FuncVal(st, modname)
        elif isinstance(st, ast.ClassDef):
            cenv = dict(env)
            before = set(cenv)
            local = {}
            # class body: names assigned in the body shadow module names
            for s2 in st.body:
                snapshot = dict(cenv)
                self._exec_stmt(s2, cenv, modname)
                for k, v in cenv.items():
                    if k not in snapshot or snapshot[k] is not v:
                        local[k] = v
            env[st.name] = ClassVal(st.name, local, st, modname)
        elif isinstance(st, ast.Expr):
            # e.g. __all__.remove('re')
            v = st.value
            if (isinstance(v, ast.Call) and isinstance(v.func, ast.Attribute)
                    and isinstance(v.func.value, ast.Name)):
                tgt = env.get(v.func.value.id)
                if isinstance(tgt, list) and v.func.attr in ('remove', 'append', 'extend', 'insert'):
                    args = [self.eval(a, env, modname) for a in v.args]
                    if not any(is_unknown(a) for a in args):
                        try:
                            getattr(tgt, v.func.attr)(*args)
                        except Exception:
                            env[v.func.value.id] = Unknown('list mutation failed')
        elif isinstance(st, (ast.If, ast.Try, ast.With, ast.For, ast.While)):
            # not used at module level for constants in this repo; names
            # bound or mutated inside become Unknown.
            for n in ast.walk(st):
                if isinstance(n, ast.Name) and isinstance(n.ctx, ast.Store):
                    env[n.id] = Unknown('bound under control flow')
                if isinstance(n, ast.Subscript) and isinstance(n.ctx, (ast.Store, ast.Del)) \
                        and isinstance(n.value, ast.Name):
                    env[n.value.id] = Unknown('mutated under control flow')
                if isinstance(n, ast.Call) and isinstance(n.func, ast.Attribute) \
                        and isinstance(n.func.value, ast.Name) and n.func.attr in (
                            'append', 'extend', 'insert', 'update', 'setdefault', 'pop', 'remove', 'add'):
                    env[n.func.value.id] = Unknown('mutated under control flow')

    def _bind(self, target, val, env, modname):
        if isinstance(target, ast.Name):
            if isinstance(val, RegexVal) and val.name is None:
                val.name = target.id
                val.module = modname
            env[target.id] = val
        elif isinstance(target, (ast.Tuple, ast.List)):
            if isinstance(val, (tuple, list, str)) and len(val) == len(target.elts):
                for t, v in zip(target.elts, val):
                    self._bind(t, v, env, modname)
            else:
                for t in target.elts:
                    self._bind(t, Unknown('unpack'), env, modname)
        elif isinstance(target, ast.Attribute):
            # `TRS._TRS_UNPACKER_REGEX = TRS._compile_unpacker_regex()` right after the class body:
            # a class attribute filled in at module level
            if isinstance(target.value, ast.Name) and isinstance(env.get(target.value.id), ClassVal):
                if isinstance(val, RegexVal) and val.name is None:
                    val.name = f"{target.value.id}.{target.attr}"
                    val.module = modname
                env[target.value.id].attrs[target.attr] = val
        elif isinstance(target, ast.Subscript) and isinstance(target.value, ast.Name):
            cur = env.get(target.value.id)
            key = self.eval(target.slice, env, modname)
            if isinstance(cur, dict) and not is_unknown(key) and not is_unknown(val):
                try:
                    cur[key] = val
                except TypeError:
                    env[target.value.id] = Unknown('unhashable key')
            else:
                env[target.value.id] = Unknown('subscript store')

    def _resolve_from(self, modname, level, module):
        mod = self.repo.modules[modname]
        if level == 0:
            return module
        base = mod.package.split('.')
        if level > 1:
            base = base[:len(base) - (level - 1)]
        if module:
            base = base + module.split('.')
        return '.'.join(base)

    def _import_from(self, st, env, modname):
        target = self._resolve_from(modname, st.level, st.module)
        if target not in self.repo.modules:
            for a in st.names:
                if a.name != '*':
                    env[a.asname or a.name] = ModuleVal(f"{target}.{a.name}")
            return
        tenv = self.module_env(target)
        for a in st.names:
            if a.name == '*':
                allv = tenv.get('__all__')
                if isinstance(allv, (list, tuple)) and all(isinstance(x, str) for x in allv):
                    names = [n for n in allv if n in tenv]
                else:
                    names = [n for n in tenv if not n.startswith('__')]
                for n in names:
                    env[n] = tenv[n]
            else:
                if a.name in tenv:
                    env[a.asname or a.name] = tenv[a.name]
                elif f"{target}.{a.name}" in self.repo.modules:
                    env[a.asname or a.name] = ModuleVal(f"{target}.{a.name}")
                else:
                    env[a.asname or a.name] = Unknown(f"{target}.{a.name} undefined")

    # ------------------------------------------------------------------
    def eval(self, node, env, modname, depth=0):
        try:
            return self._eval(node, env, modname, depth)
        except RecursionError:
            return Unknown('recursion')

    def _eval(self, node, env, modname, depth):
        ev = lambda n: self._eval(n, env, modname, depth)
        if isinstance(node, ast.Constant):
            return node.value
        if isinstance(node, ast.Name):
            if node.id in env:
                return env[node.id]
            if node.id in ('True', 'False', 'None'):
                return {'True': True, 'False': False, 'None': None}[node.id]
            return Unknown(f"name {node.id}")
        if isinstance(node, ast.JoinedStr):
            parts = []
            for v in node.values:
                if isinstance(v, ast.Constant):
                    parts.append(str(v.value))
                elif isinstance(v, ast.FormattedValue):
                    if v.format_spec is not None:
                        return Unknown('format spec')
                    x = ev(v.value)
                    if is_unknown(x) or not isinstance(x, (str, int)):
                        return Unknown(f"fstring part {ast.unparse(v.value)}")
                    if v.conversion == 114:
                        parts.append(repr(x))
                    else:
                        parts.append(str(x))
                else:
                    return Unknown('fstring')
            return ''.join(parts)
        if isinstance(node, ast.Tuple):
            xs = [ev(e) for e in node.elts]
            return tuple(xs)
        if isinstance(node, ast.List):
            return [ev(e) for e in node.elts]
        if isinstance(node, ast.Set):
            xs = [ev(e) for e in node.elts]
            try:
                return set(xs)
            except TypeError:
                return Unknown('unhashable set elt')
        if isinstance(node, ast.Dict):
            out = {}
            for k, v in zip(node.keys, node.values):
                if k is None:
                    return Unknown('dict splat')
                kk = ev(k)
                if is_unknown(kk):
                    return Unknown(f"dict key {ast.unparse(k)}")
                try:
                    out[kk] = ev(v)
                except TypeError:
                    return Unknown('unhashable key')
            return out
        if isinstance(node, ast.BinOp):
            return self._binop(node.op, ev(node.left), ev(node.right))
        if isinstance(node, ast.UnaryOp):
            x = ev(node.operand)
            if is_unknown(x):
                return x
            try:
                if isinstance(node.op, ast.Not):
                    return not x
                if isinstance(node.op, ast.USub):
                    return -x
            except Exception:
                pass
            return Unknown('unaryop')
        if isinstance(node, ast.Attribute):
            base = ev(node.value)
            return self._getattr(base, node.attr)
        if isinstance(node, ast.Subscript) and isinstance(node.slice, ast.Slice):
            base = ev(node.value)
            parts = [None if x is None else ev(x) for x in (node.slice.lower, node.slice.upper, node.slice.step)]
            if isinstance(base, (str, list, tuple)) and all(p_ is None or (isinstance(p_, int) and not isinstance(p_, bool)) for p_ in parts):
                try:
                    return base[slice(*parts)]
                except Exception:
                    return Unknown('slice failed')
            return Unknown('slice')
        if isinstance(node, ast.Subscript):
            base = ev(node.value)
            idx = ev(node.slice)
            if is_unknown(base) or is_unknown(idx):
                return Unknown('subscript')
            try:
                return base[idx]
            except Exception:
                return Unknown('subscript failed')
        if isinstance(node, ast.Call):
            return self._call(node, env, modname, depth)
        if isinstance(node, ast.IfExp):
            t = ev(node.test)
            if is_unknown(t):
                return Unknown('ifexp')
            return ev(node.body) if t else ev(node.orelse)
        if isinstance(node, (ast.ListComp, ast.GeneratorExp, ast.SetComp, ast.DictComp)):
            return self._comprehension(node, env, modname, depth)
        if isinstance(node, ast.Lambda):
            return Unknown('lambda')
        return Unknown(type(node).__name__)

    def _comprehension(self, node, env, modname, depth):
        """Comprehension over folded sequences (a generator folds to a list)."""
        out = []
        bad = []

        def rec(i, local):
            if bad:
                return
            if i == len(node.generators):
                if isinstance(node, ast.DictComp):
                    k = self._eval(node.key, local, modname, depth)
                    v = self._eval(node.value, local, modname, depth)
                    if is_unknown(k):
                        bad.append(k)
                    out.append((k, v))
                else:
                    out.append(self._eval(node.elt, local, modname, depth))
                return
            g = node.generators[i]
            it = self._eval(g.iter, local, modname, depth)
            if isinstance(it, dict):
                it = list(it)
            if g.is_async or not isinstance(it, (list, tuple, str, set, frozenset)) or len(it) > 500:
                bad.append(Unknown('comprehension iterable'))
                return
            if isinstance(it, (set, frozenset)):
                try:
                    it = sorted(it)
                except TypeError:
                    it = list(it)
            for x in it:
                loc = dict(local)
                self._bind(g.target, x, loc, modname)
                keep = True
                for c in g.ifs:
                    t = self._eval(c, loc, modname, depth)
                    if is_unknown(t):
                        bad.append(t)
                        return
                    if not t:
                        keep = False
                        break
                if keep:
                    rec(i + 1, loc)

        rec(0, dict(env))
        if bad:
            return Unknown('comprehension')
        if isinstance(node, ast.DictComp):
            try:
                return dict(out)
            except TypeError:
                return Unknown('comprehension: unhashable key')
        if isinstance(node, ast.SetComp):
            try:
                return set(out)
            except TypeError:
                return Unknown('comprehension: unhashable element')
        return out

    def _binop(self, op, a, b):
        if is_unknown(a):
            return a
        if is_unknown(b):
            return b
        try:
            if isinstance(op, ast.Add):
                return a + b
            if isinstance(op, ast.BitOr):
                return a | b
            if isinstance(op, ast.Mult):
                return a * b
            if isinstance(op, ast.Sub):
                return a - b
            if isinstance(op, ast.Mod) and isinstance(a, str):
                return a % b
        except Exception:
            return Unknown('binop failed')
        return Unknown('binop')

    def _getattr(self, base, attr):
        if is_unknown(base):
            return base
        if isinstance(base, ModuleVal):
            if base.name == 're' and attr in RE_FLAGS:
                return int(RE_FLAGS[attr])
            full = f"{base.name}.{attr}"
            if full in self.repo.modules:
                return ModuleVal(full)
            if base.name in self.repo.modules:
                tenv = self.module_env(base.name)
                if attr in tenv:
                    return tenv[attr]
            return ModuleVal(full)
        if isinstance(base, RegexVal):
            if attr == 'pattern':
                return base.pattern
            if attr == 'flags':
                return base.flags
            return Unknown(f"regex attr {attr}")
        if isinstance(base, ClassVal):
            if attr in base.attrs:
                return base.attrs[attr]
            return Unknown(f"class attr {base.name}.{attr}")
        return Unknown(f"attr {attr}")

    def _call(self, node, env, modname, depth):
        ev = lambda n: self._eval(n, env, modname, depth)
        f = node.func
        # method calls on folded values
        if isinstance(f, ast.Attribute):
            base = ev(f.value)
            if isinstance(base, ModuleVal) and base.name == 're' and f.attr == 'compile':
                args = [ev(a) for a in node.args]
                kw = {k.arg: ev(k.value) for k in node.keywords}
                pat = args[0] if args else kw.get('pattern', Unknown('no pattern'))
                flags = args[1] if len(args) > 1 else kw.get('flags', 0)
                if isinstance(pat, str) and isinstance(flags, int):
                    return RegexVal(pat, int(flags))
                return Unknown(f"re.compile args ({pat!r:.40}, {flags!r})")
            if isinstance(base, ModuleVal) and base.name == 're' and f.attr == 'escape' and len(node.args) == 1:
                a0 = ev(node.args[0])
                if isinstance(a0, str):
                    import re as _re
                    return _re.escape(a0)
                return Unknown('re.escape arg')
            if isinstance(f.value, ast.Name) and f.value.id == 'str' and 'str' not in env and f.attr == 'maketrans':
                args = [ev(a) for a in node.args]
                if args and not any(is_unknown(a) for a in args) and all(isinstance(a, (str, dict)) for a in args):
                    try:
                        return str.maketrans(*args)         # a table of code points built from constants
                    except Exception:
                        return Unknown('maketrans failed')
                return Unknown('maketrans args')
            if isinstance(base, str) and f.attr == 'format':
                args = [ev(a) for a in node.args]
                kw = {k.arg: ev(k.value) for k in node.keywords}
                if any(is_unknown(a) for a in args) or any(is_unknown(v) for v in kw.values()):
                    return Unknown('format args')
                try:
                    return base.format(*args, **kw)
                except Exception:
                    return Unknown('format failed')
            if isinstance(base, str) and f.attr in ('lower', 'upper', 'strip') and not node.args:
                return getattr(base, f.attr)()
            if isinstance(base, str) and f.attr == 'join':
                args = [ev(a) for a in node.args]
                if len(args) == 1 and isinstance(args[0], (list, tuple)) and all(isinstance(x, str) for x in args[0]):
                    return base.join(args[0])
                return Unknown('join')
            if isinstance(base, dict) and f.attr in ('keys', 'values', 'items') and not node.args:
                return list(getattr(base, f.attr)())
            if isinstance(base, (list, tuple)) and f.attr == 'copy':
                return list(base)
            fv = base
            if isinstance(base, ClassVal) and isinstance(base.attrs.get(f.attr), FuncVal):
                fv = base.attrs[f.attr]         # a static method called through its class
        else:
            fv = ev(f)
        if isinstance(f, ast.Name) and f.id in ('tuple', 'list', 'set', 'frozenset', 'dict', 'len', 'str', 'int', 'sorted') and f.id not in env:
            args = [ev(a) for a in node.args]
            if any(is_unknown(a) for a in args):
                return Unknown(f"{f.id}() arg")
            try:
                return {'tuple': tuple, 'list': list, 'set': set,
                        'frozenset': frozenset, 'dict': dict, 'len': len,
                        'str': str, 'int': int, 'sorted': sorted}[f.id](*args)
            except Exception:
                return Unknown(f"{f.id}() failed")
        if isinstance(fv, FuncVal) and depth < 4:
            return self._inline(fv, node, env, modname, depth)
        return Unknown(f"call {ast.unparse(f)}")

    def _inline(self, fv, call, env, modname, depth):
        """Inline a straight-line function: assignments then return."""
        fn = fv.node
        a = fn.args
        names = [x.arg for x in a.posonlyargs + a.args]
        local = dict(self.module_env(fv.modname))
        defaults = a.defaults
        for x, d in zip(names[len(names) - len(defaults):], defaults):
            local[x] = self._eval(d, self.module_env(fv.modname), fv.modname, depth + 1)
        for n, arg in zip(names, call.args):
            local[n] = self._eval(arg, env, modname, depth)
        for kw in call.keywords:
            if kw.arg is None:
                return Unknown('**kwargs')
            local[kw.arg] = self._eval(kw.value, env, modname, depth)
        for st in fn.body:
            if isinstance(st, ast.Expr) and isinstance(st.value, ast.Constant):
                continue
            if isinstance(st, ast.Return):
                if st.value is None:
                    return None
                return self._eval(st.value, local, fv.modname, depth + 1)
            if isinstance(st, (ast.Assign, ast.AnnAssign, ast.AugAssign)):
                self._exec_stmt(st, local, fv.modname)
                continue
            return Unknown(f"inline: {type(st).__name__} in {fn.name}")
        return None

    # ------------------------------------------------------------------
    def func_env(self, fi, upto=None):
        """
        Module env + constants assigned (once, straight-line at the top
        level of the body) inside function ``fi`` and its enclosing
        functions.  Names assigned more than once, or under control flow,
        are Unknown.
        """
        chain = []
        f = fi
        while f is not None:
            chain.append(f)
            f = f.outer
        env = dict(self.module_env(fi.module.name))
        if fi.cls is not None or any(c.cls for c in chain):
            pass
        for f in reversed(chain):
            counts = {}
            for n in ast.walk(f.node):
                if isinstance(n, ast.Name) and isinstance(n.ctx, ast.Store):
                    counts[n.id] = counts.get(n.id, 0) + 1
            for p in f.params():
                env[p] = Unknown('parameter')
            from .srcmodel import walk_local
            stmts = [x for x in walk_local(f.node)
                     if isinstance(x, (ast.Assign, ast.FunctionDef, ast.AsyncFunctionDef))]
            stmts.sort(key=lambda x: (x.lineno, x.col_offset))
            for st in stmts:
                if isinstance(st, ast.Assign) and len(st.targets) == 1 \
                        and isinstance(st.targets[0], ast.Name):
                    nm = st.targets[0].id
                    if counts.get(nm, 0) == 1:
                        env[nm] = self.eval(st.value, env, fi.module.name)
                    else:
                        env[nm] = Unknown('assigned more than once')
                elif isinstance(st, (ast.FunctionDef, ast.AsyncFunctionDef)):
                    env[st.name] = FuncVal(st, fi.module.name)
        return env

    # ------------------------------------------------------------------
    def all_regexes(self):
        """name -> RegexVal for every module-level compiled regex in the
        package (first definition wins for re-exported names)."""
        out = {}
        for modname in sorted(self.repo.modules):
            env = self.module_env(modname)
            mod = self.repo.modules[modname]
            for st in mod.tree.body:
                if isinstance(st, ast.Assign):
                    for t in st.targets:
                        if isinstance(t, ast.Name):
                            v = env.get(t.id)
                            if isinstance(v, RegexVal) and v.module == modname:
                                out[f"{modname}.{t.id}"] = v
        return out
