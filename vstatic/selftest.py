"""
Thorough tier: the checker's own two-way test on the *current* tree.

A scratch copy of <repo>/pytrs is made under $TMPDIR (outside /repo and
/verif, removed afterwards; source only).  For the property being checked

  (a) every seeded breakage recorded for it under /verif/seeded/ (independent
      sub-agent mutants, each confirmed to pass the 244 tests and to break
      the property) is applied to a fresh copy and MUST be reported by this
      property's rules;
  (b) benign variants MUST stay silent: every module re-emitted with
      ast.unparse (all formatting / comments / line numbers change), a
      line-shifted copy, and the confirmed behaviour-preserving refactors
      under /verif/seeded_benign/.

The mutated copies are only parsed, never executed.  A breakage that goes
unreported, or a benign variant that alarms, makes the run exit 2 (the
checker is broken; nothing it says is believed).
"""

import ast
import contextlib
import glob
import io
import json
import os
import shutil
import subprocess
import tempfile

from .core import run_property, VERIF


def _copy_repo(repo_root, dest):
    shutil.copytree(os.path.join(repo_root, 'pytrs'), os.path.join(dest, 'pytrs'),
                    ignore=shutil.ignore_patterns('__pycache__'))


def _apply(patch, dest):
    p = subprocess.run(['git', 'apply', '--unsafe-paths', f'--directory={dest}', patch],
                       cwd='/', capture_output=True, text=True)
    return p.returncode == 0


def _run(prop, mod, root):
    buf = io.StringIO()
    with contextlib.redirect_stdout(buf):
        rc = run_property(prop, mod.check, mod.META, root, 'quick', 0,
                          evidence_dir=os.path.join(root, 'ev'), quiet=True)
    return rc, buf.getvalue()


def _unparse_variant(dest):
    n = 0
    for path in glob.glob(os.path.join(dest, 'pytrs', '**', '*.py'), recursive=True):
        with open(path, encoding='utf-8') as fh:
            src = fh.read()
        try:
            out = ast.unparse(ast.parse(src))
        except Exception:
            continue
        with open(path, 'w', encoding='utf-8') as fh:
            fh.write(out + '\n')
        n += 1
    return n


def _shift_variant(dest):
    for path in glob.glob(os.path.join(dest, 'pytrs', '**', '*.py'), recursive=True):
        with open(path, encoding='utf-8') as fh:
            src = fh.read()
        with open(path, 'w', encoding='utf-8') as fh:
            fh.write('# shifted\n#\n#\n' + src.replace('\n\n\n', '\n\n\n\n'))


def _task(args):
    """One scratch-copy evaluation (runs in a worker process)."""
    import importlib
    prop, repo_root, work, kind, name, payload = args
    mod = importlib.import_module(f"vstatic.rules.{prop.lower()}")
    dest = tempfile.mkdtemp(prefix='t-', dir=work)
    try:
        _copy_repo(repo_root, dest)
        if kind == 'patch':
            if not _apply(payload, dest):
                return kind, name, None, 'patch does not apply'
        elif payload == 'unparse':
            _unparse_variant(dest)
        elif payload == 'shift':
            _shift_variant(dest)
        rc, out = _run(prop, mod, dest)
        return kind, name, rc, out
    finally:
        shutil.rmtree(dest, ignore_errors=True)


def run(prop, mod, repo_root, seed, evidence_dir=None):
    from concurrent.futures import ProcessPoolExecutor
    tmpbase = os.environ.get('TMPDIR') or '/tmp'
    work = tempfile.mkdtemp(prefix=f'vstatic-selftest-{prop}-', dir=tmpbase)
    killed, survived, skipped = [], [], []
    silent, alarmed = [], []
    tasks = []
    for d in sorted(glob.glob(os.path.join(VERIF, 'seeded', '*'))):
        mp = os.path.join(d, 'meta.json')
        if not os.path.exists(mp):
            continue
        meta = json.load(open(mp))
        if prop in (meta.get('detected_by') or []):
            tasks.append((prop, repo_root, work, 'patch', 'M:' + os.path.basename(d), os.path.join(d, 'patch.diff')))
    tasks.append((prop, repo_root, work, 'variant', 'B:ast.unparse of every module', 'unparse'))
    tasks.append((prop, repo_root, work, 'variant', 'B:line shift', 'shift'))
    for d in sorted(glob.glob(os.path.join(VERIF, 'seeded_benign', '*'))):
        tasks.append((prop, repo_root, work, 'patch', 'B:' + os.path.basename(d), os.path.join(d, 'patch.diff')))
    try:
        workers = min(14, max(1, (os.cpu_count() or 2) - 2))
        with ProcessPoolExecutor(workers) as ex:
            results = list(ex.map(_task, tasks))
    finally:
        shutil.rmtree(work, ignore_errors=True)
    for kind, name, rc, out in results:
        tag, nm = name.split(':', 1)
        if rc is None:
            if tag == 'M':
                skipped.append(nm)
            continue
        if tag == 'M':
            (killed if rc == 1 else survived).append(nm)
        else:
            (silent if rc == 0 else alarmed).append(nm if rc == 0 else f"{nm}: rc={rc} {out.strip().splitlines()[:3]}")

    # (c) trusted-base check: the engine's exact matcher agrees with re on
    # words sampled from the automata of the regexes this property consults
    engine = _engine_crosscheck(prop, mod, repo_root, seed)

    ev_dir = evidence_dir or os.path.join(VERIF, 'evidence')
    ev_path = os.path.join(ev_dir, f"{prop}.json")
    try:
        ev = json.load(open(ev_path))
        ev['tier'] = 'thorough'
        ev['coverage']['selftest'] = {
            'seeded_breakages_reported': killed, 'seeded_breakages_missed': survived,
            'seeded_not_applicable_to_this_tree': skipped,
            'benign_variants_silent': silent, 'benign_variants_alarmed': alarmed,
            'engine_crosscheck': engine,
        }
        json.dump(ev, open(ev_path, 'w'), indent=1, ensure_ascii=False)
    except Exception:
        pass
    print(f"{prop} selftest: {len(killed)}/{len(killed) + len(survived)} seeded breakages reported"
          f" ({len(skipped)} do not apply to this tree), {len(silent)}/{len(silent) + len(alarmed)} benign variants silent")
    if engine.get('disagreements'):
        for d in engine['disagreements'][:5]:
            print(f"ANALYSIS-ERROR property={prop} selftest: engine matcher disagrees with re: {d}")
        return 2
    if survived or alarmed:
        for s in survived:
            print(f"ANALYSIS-ERROR property={prop} selftest: seeded breakage {s} was not reported")
        for a in alarmed:
            print(f"ANALYSIS-ERROR property={prop} selftest: benign variant alarmed: {a}")
        return 2
    return 0


def _engine_crosscheck(prop, mod, repo_root, seed):
    """Lang (our exact set-of-positions matcher) vs re.fullmatch/search on
    words sampled from each regex's automaton.  Validates the analyser, not
    the repository."""
    import random
    import re
    from .core import Ctx
    from . import rx
    from .rules import common
    fams = set(mod.META.get('families', []))
    if not any(f.startswith('RX-') for f in fams):
        return {'skipped': 'property uses no regex-language rule'}
    ctx = Ctx(prop, repo_root, 'quick', seed)
    rng = random.Random(seed)
    checked = 0
    dis = []
    inv = [r for r in common.regex_inventory(ctx) if r['rv'] is not None]
    rng.shuffle(inv)
    for r in inv[:25]:
        rv = r['rv']
        try:
            L = rx.Lang(rv.pattern, rv.flags)
            cre = re.compile(rv.pattern, rv.flags)
            words = rx.sample_words(rv.pattern, rv.flags, 12, rng)
        except Exception as e:        # noqa
            dis.append(f"{r['name']}: {type(e).__name__}: {e}")
            continue
        for w in words:
            checked += 1
            a, b = L.fullmatch(w), cre.fullmatch(w) is not None
            c, d = L.search(w), cre.search(w) is not None
            if a != b or c != d:
                dis.append(f"{r['name']} on {w!r}: engine fullmatch={a} search={c}, re fullmatch={b} search={d}")
    return {'regexes': min(25, len(inv)), 'words_compared': checked, 'disagreements': dis}
