"""
Re-locating an anchor function after a rename.

The property file names functions (`ChunkParser.get_next_sec`,
`TractParser.gen_flags`, ...).  A maintainer may rename a private helper
without touching what it does; the checker should then keep judging the
function, not fail because a name is gone.  For the anchors below the
function is described by what it DOES (the class it belongs to, constants and
calls that only it contains); when the name is not found and exactly one
function fits the description, that function is taken (and recorded in the
evidence under `moved_anchors`).  No fit, or more than one: the anchor has
vanished (AnalysisError -> exit 2), as before.
"""

import ast


def _dotted(n):
    parts = []
    while isinstance(n, ast.Attribute):
        parts.append(n.attr)
        n = n.value
    if isinstance(n, ast.Name):
        parts.append(n.id)
        return '.'.join(reversed(parts))
    return None


def _consts(fn):
    return {x.value for x in ast.walk(fn) if isinstance(x, ast.Constant) and isinstance(x.value, str)}


def _attrs(fn):
    return {x.attr for x in ast.walk(fn) if isinstance(x, ast.Attribute)}


def _calls(fn):
    out = set()
    for x in ast.walk(fn):
        if isinstance(x, ast.Call):
            f = x.func
            out.add(f.attr if isinstance(f, ast.Attribute) else f.id if isinstance(f, ast.Name) else '')
    return out


def _joined(fn):
    """text of every f-string / string constant"""
    out = []
    for x in ast.walk(fn):
        if isinstance(x, ast.JoinedStr):
            out.append(''.join(str(p.value) for p in x.values if isinstance(p, ast.Constant)))
        elif isinstance(x, ast.Constant) and isinstance(x.value, str):
            out.append(x.value)
    return ' '.join(out)


def _in_class(fi, name):
    top = fi
    while top.outer is not None:
        top = top.outer
    return top.cls is not None and top.cls.name == name


# anchor (qualified-name suffix) -> predicate(FuncInfo) -> bool
ROLES = {
    'TractParser.gen_flags':
        lambda f: _in_class(f, 'TractParser') and f.outer is None and 'dup_lot' in _joined(f.node) and 'dup_qq' in _joined(f.node),
    'ChunkParser.get_next_sec':
        lambda f: _in_class(f, 'ChunkParser') and f.outer is None and '_ERR_SEC' in _attrs(f.node) and 'pop' in _calls(f.node)
        and '_ERR_TWPRGE' not in _attrs(f.node),
    'ChunkParser.get_next_twprge':
        lambda f: _in_class(f, 'ChunkParser') and f.outer is None and '_ERR_TWPRGE' in _attrs(f.node) and 'pop' in _calls(f.node)
        and '_ERR_SEC' not in _attrs(f.node),
    'plss_preprocess:sub_scrubber':
        lambda f: f.module.name.endswith('plss_preprocess') and f.outer is None and f.cls is None
        and 'unpack_twprge' in {c for g in [f.node] for c in _calls(g)} and 'default_ns' in f.params() and len(f.params()) == 4,
    '_TRSTractList._sort_custom.parse_key':
        # the function that full-matches one component of a sort key and rejects an uninterpretable one
        lambda f: f.module.name.endswith('containers.containers') and 'fullmatch' in _calls(f.node)
        and any(isinstance(x, ast.Raise) for x in ast.walk(f.node))
        and ('rev' in _joined(f.node) or 'rev' in ' '.join(sorted(_attrs(f.node))) or True)
        and not any(isinstance(x, (ast.FunctionDef,)) and x is not f.node for x in ast.walk(f.node)),
    '_TRSTractList._verify_iterable':
        lambda f: _in_class(f, '_TRSTractList') and f.outer is None and 'into' in f.params()
        and any((_dotted(d) or '') == 'classmethod' for d in f.node.decorator_list)
        and any(isinstance(x, ast.For) for x in ast.walk(f.node)) and 'append' in _calls(f.node)
        and '_ok_iterables' not in _attrs(f.node),
    '_TRSTractList._verify_individual':
        lambda f: _in_class(f, '_TRSTractList') and f.outer is None and '_ok_individuals' in _attrs(f.node)
        and any((_dotted(d) or '') == 'classmethod' for d in f.node.decorator_list) and len(f.params()) == 2,
    '_TRSTractList._sort_custom.i_sort_evaluate':
        lambda f: f.module.name.endswith('containers.containers') and '_Tract__uid' in _attrs(f.node)
        and not any(isinstance(x, ast.FunctionDef) and x is not f.node and '_Tract__uid' in _attrs(x) for x in ast.walk(f.node)),
    'tract_preprocess:process_half_plus_q_match':
        lambda f: f.module.name.endswith('tract_preprocess') and f.cls is None and len(f.params()) == 1 and (
            {'ne_found', 'nw_found', 'se_found', 'sw_found'} <= _consts(f.node)
            or any(isinstance(x, ast.Subscript) and isinstance(x.value, ast.Name) and x.value.id == f.params()[0]
                   and isinstance(x.slice, ast.Constant) and x.slice.value == 'quarter_aliquot_rightmost'
                   for x in ast.walk(f.node))),
}


def relocate(repo, spec):
    """FuncInfo playing the part of the vanished anchor `spec`, or None"""
    q = spec
    for key, pred in ROLES.items():
        if spec == key or spec.endswith(':' + key) or key.endswith(':' + spec.split(':')[-1]) and ':' not in spec \
                or spec.split(':')[-1] == key.split(':')[-1]:
            hits = []
            for f in repo.funcs.values():
                try:
                    if pred(f):
                        hits.append(f)
                except Exception:
                    continue
            if len(hits) == 1:
                return hits[0]
            return None
    return None
