"""
CLI:  python -m vstatic <C01..C20|all> [--tier quick|thorough] [--repo DIR]
      python -m vstatic --replay <path>

Exit 0: property held on everything analysed (KNOWN-FINDING lines allowed)
Exit 1: VIOLATION property=<id> replay=<path>
Exit 2: ANALYSIS-ERROR (anchor vanished / shape not understood / internal)
"""

import argparse
import importlib
import json
import os
import sys

# The analysed package must never be imported.
class _NoPytrs:
    def find_spec(self, name, path=None, target=None):
        if name == 'pytrs' or name.startswith('pytrs.'):
            raise ImportError("vstatic never imports the analysed package")
        return None


sys.meta_path.insert(0, _NoPytrs())

from . import REPO_DEFAULT            # noqa: E402
from .core import run_property        # noqa: E402

ALL = [f"C{i:02d}" for i in range(1, 21)]


def load_rule(prop):
    try:
        return importlib.import_module(f"vstatic.rules.{prop.lower()}")
    except ModuleNotFoundError:
        return None
    except Exception as e:      # a broken checker is exit 2, never a traceback that looks like exit 1
        import traceback
        traceback.print_exc()
        print(f"ANALYSIS-ERROR property={prop} checker module failed to load: {type(e).__name__}: {e}")
        return None


def main(argv=None):
    ap = argparse.ArgumentParser(prog='vstatic')
    ap.add_argument('prop', nargs='?')
    ap.add_argument('--tier', default=os.environ.get('VERIF_TIER', 'quick'))
    ap.add_argument('--repo', default=os.environ.get('VSTATIC_REPO', REPO_DEFAULT))
    ap.add_argument('--replay')
    ap.add_argument('--evidence-dir')
    ap.add_argument('--no-selftest', action='store_true')
    args = ap.parse_args(argv)
    seed = int(os.environ.get('VERIF_SEED', '0') or 0)
    tier = args.tier if args.tier in ('quick', 'thorough') else 'quick'

    if args.replay:
        with open(args.replay, encoding='utf-8') as fh:
            rec = json.load(fh)
        prop = rec['property']
        mod = load_rule(prop)
        print(f"replaying {prop} rule={rec['rule']} construct={rec['construct']}")
        print(f"recorded: {rec['detail']}")
        rc = run_property(prop, mod.check, mod.META, args.repo, 'quick', seed,
                          evidence_dir=args.evidence_dir)
        return rc

    props = ALL if args.prop in (None, 'all') else [args.prop]
    worst = 0
    rcs = []
    for prop in props:
        mod = load_rule(prop)
        if mod is None:
            print(f"ANALYSIS-ERROR property={prop} no rule module")
            worst = max(worst, 2)
            continue
        rc = run_property(prop, mod.check, mod.META, args.repo, tier, seed,
                          evidence_dir=args.evidence_dir)
        if rc == 0 and tier == 'thorough' and not args.no_selftest:
            from . import selftest
            rc = selftest.run(prop, mod, args.repo, seed,
                              evidence_dir=args.evidence_dir)
        rcs.append(rc)
    worst = 2 if 2 in rcs else (1 if 1 in rcs else worst)
    return worst


if __name__ == '__main__':
    try:
        rc = main()
    except SystemExit:
        raise
    except BaseException as e:      # never let a traceback exit with status 1
        import traceback
        traceback.print_exc()
        print(f"ANALYSIS-ERROR internal: {type(e).__name__}: {e}")
        rc = 2
    sys.exit(rc)
